#!/bin/sh
# Offline setup: nothing to fetch or build. Verifies the interpreter, the library import from
# /repo's working tree, and that every check module compiles.
set -e
HERE="$(cd "$(dirname "$0")" && pwd)"
cd "$HERE"
export PYTHONDONTWRITEBYTECODE=1
/venv/bin/python - <<'PY'
import glob, sys, os
sys.path.insert(0, os.getcwd())
for f in sorted(glob.glob("sim/*.py") + glob.glob("checks/*.py")):
    compile(open(f).read(), f, "exec")
from sim import factory
factory.import_library()
import lxml, click, rich  # noqa
print("setup ok:", sys.version.split()[0])
PY
mkdir -p evidence out/replays
