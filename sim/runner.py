"""Batch runner: seeded search over simulated runs, on all cores, with replay + minimisation.

Exit codes: 0 property held on everything explored; 1 violation (VIOLATION line printed after
the minimised replay reproduced in a fresh interpreter); 2 harness error (never a VIOLATION).
"""
import array
import hashlib
import json
import os
import pickle
import resource
import select
import signal
import subprocess
import sys
import time
import traceback

from .choices import Choices, derive_seed, shrink
from .procs import ChildTimeout

VERIF_DIR = os.path.dirname(os.path.dirname(os.path.abspath(__file__)))
DEFAULT_SEED = 20261003
RUN_WALL_S = 20            # backstop per run (100-10000x a normal run)
KNOWN_FINDINGS = os.path.join(VERIF_DIR, "known_findings.json")
DISTINCT_SAMPLE = 1        # set from the tier configuration before the batch is forked


class WallTimeout(BaseException):
    pass


class Outcome:
    """What one simulated run reports."""
    __slots__ = ("violation", "sig", "message", "log", "nontrivial", "faults", "probes", "sim_ns",
                 "fanout", "sample", "cov", "sched")

    def __init__(self):
        self.violation = None     # kind string, or None
        self.sig = ""             # stable signature of the failing input (known-findings key)
        self.message = ""
        self.log = ()             # event log (list of tuples)
        self.nontrivial = False
        self.faults = {}
        self.probes = {}
        self.sim_ns = 0
        self.fanout = None        # (position in rec, n): enumerate that choice over 1..n-1
        self.sample = None        # rendered trace (only when render=True)
        self.cov = ()             # model transitions covered (hashable small items)
        self.sched = None         # optional explicit schedule key; default derived from log

    def fail(self, kind, message, sig=""):
        if self.violation is None:
            self.violation = kind
            self.message = message
            self.sig = sig or kind
        return self


def h64(obj) -> int:
    return int.from_bytes(hashlib.blake2b(repr(obj).encode(), digest_size=8).digest(), "big")


def log_digest(log) -> str:
    return hashlib.blake2b(repr(log).encode(), digest_size=16).hexdigest()


def sched_key(out) -> int:
    if out.sched is not None:
        return h64(out.sched)
    return h64([(e[2], e[3]) for e in out.log])


def repo_rev():
    repo = os.environ.get("VERIF_REPO", "/repo")
    try:
        r = subprocess.run(["git", "-C", repo, "rev-parse", "HEAD"], capture_output=True, text=True, timeout=20)
        d = subprocess.run(["git", "-C", repo, "status", "--porcelain", "--untracked-files=no"],
                           capture_output=True, text=True, timeout=20)
        return r.stdout.strip() + ("+dirty" if d.stdout.strip() else "")
    except Exception:
        return "unknown"


# --------------------------------------------------------------------------------------
# one run, guarded
# --------------------------------------------------------------------------------------

def _cpu(check):
    """Primary backstop: CPU seconds of the running process. Everything the library waits for is simulated, so a library
    that does not terminate burns CPU; CPU time, unlike wall time, does not stretch when the machine is loaded."""
    return getattr(check, "RUN_WALL_S", RUN_WALL_S) / 2.0


def _wall(check):
    """Fallback backstop in real time (a run blocked outside the simulation), generous enough for a loaded machine."""
    return getattr(check, "RUN_WALL_S", RUN_WALL_S) * 4


def _alarm(_sig, _frm):
    raise WallTimeout()


def guarded_run(check, ch, render=False, wall_s=None):
    """Execute check.run(ch) with the backstops. Harness exceptions propagate; a timeout becomes a 'hang' outcome."""
    cpu_s = _cpu(check)
    wall_s = wall_s or _wall(check)
    old = signal.signal(signal.SIGALRM, _alarm)
    oldp = signal.signal(signal.SIGPROF, _alarm)
    signal.setitimer(signal.ITIMER_REAL, wall_s)
    signal.setitimer(signal.ITIMER_PROF, cpu_s)
    try:
        try:
            out = check.run(ch, render=render)
        finally:
            signal.setitimer(signal.ITIMER_PROF, 0)
            signal.setitimer(signal.ITIMER_REAL, 0)
    except (WallTimeout, ChildTimeout):
        out = Outcome()
        out.fail("hang", f"run (or one of its baseline / expectation children) did not finish within the backstop of "
                         f"{cpu_s:.0f} CPU seconds ({wall_s:.0f}s of wall-clock time)", "hang")
    finally:
        signal.setitimer(signal.ITIMER_PROF, 0)
        signal.setitimer(signal.ITIMER_REAL, 0)
        signal.signal(signal.SIGALRM, old)
        signal.signal(signal.SIGPROF, oldp)
    return out


class Agg:
    def __init__(self):
        self.evaluations = 0
        self.cases = 0
        self.nontrivial = set()
        self.scheds = set()
        self.faults = {}
        self.probes = {}
        self.cov = set()
        self.sim_ns = 0
        self.violations = []       # dicts
        self.samples = []          # (index, sample)
        self.run_digests = {}      # case index -> digest (first N cases)
        self.errors = []
        self.n_violations = 0
        self.hang_seen = False     # a run tripped the CPU-time backstop: stop early, every further such run costs the full backstop

    def add_run(self, idx, out, rec, keep_digest):
        self.evaluations += 1
        # very large batches keep a 1-in-SAMPLE subset of the hashes (by hash value, so the subset of distinct
        # values is itself 1-in-SAMPLE) and report count * SAMPLE as an estimate; quick tiers use SAMPLE = 1 (exact)
        if out.nontrivial:
            h = h64(rec)
            if h % DISTINCT_SAMPLE == 0:
                self.nontrivial.add(h)
        h = sched_key(out)
        if h % DISTINCT_SAMPLE == 0:
            self.scheds.add(h)
        for k, v in out.faults.items():
            self.faults[k] = self.faults.get(k, 0) + v
        for k, v in out.probes.items():
            self.probes[k] = self.probes.get(k, 0) + v
        if out.cov:
            self.cov.update(out.cov)
        self.sim_ns += out.sim_ns
        if out.violation is not None:
            self.n_violations += 1
            if len(self.violations) < 8:
                self.violations.append({"index": idx, "kind": out.violation, "sig": out.sig,
                                        "message": out.message, "choices": list(rec)})

    def merge(self, o):
        self.evaluations += o.evaluations
        self.cases += o.cases
        self.nontrivial |= o.nontrivial
        self.scheds |= o.scheds
        for k, v in o.faults.items():
            self.faults[k] = self.faults.get(k, 0) + v
        for k, v in o.probes.items():
            self.probes[k] = self.probes.get(k, 0) + v
        self.cov |= o.cov
        self.sim_ns += o.sim_ns
        self.violations += o.violations
        self.samples += o.samples
        self.run_digests.update(o.run_digests)
        self.errors += o.errors
        self.n_violations += o.n_violations
        self.hang_seen = self.hang_seen or o.hang_seen

    def pack(self):
        d = dict(self.__dict__)
        d["nontrivial"] = array.array("Q", self.nontrivial).tobytes()
        d["scheds"] = array.array("Q", self.scheds).tobytes()
        return pickle.dumps(d, protocol=pickle.HIGHEST_PROTOCOL)

    @staticmethod
    def unpack(b):
        d = pickle.loads(b)
        a = Agg()
        nt = array.array("Q")
        nt.frombytes(d.pop("nontrivial"))
        sc = array.array("Q")
        sc.frombytes(d.pop("scheds"))
        a.__dict__.update(d)
        a.nontrivial = set(nt)
        a.scheds = set(sc)
        return a


def selftest_indices(n_cases, n):
    """Case indices whose event-log digests are recomputed in a fresh interpreter: the first n/2
    cases plus n/2 spread evenly over the whole batch (so every mode of a check is represented)."""
    n = min(n, n_cases)
    if n <= 0:
        return frozenset()
    head = n // 2
    rest = n - head
    s = set(range(head))
    for j in range(rest):
        s.add(head + (j * (n_cases - head)) // rest)
    return frozenset(s)


def case_seed(base_seed, check_id, idx):
    return derive_seed(base_seed, check_id, idx)


def run_case(check, base_seed, idx, agg, selftest_n, want_sample, prefix=None):
    """One case = one drawn run plus (if the run asks for it) the enumeration of one of its
    choices over its whole range (fault_enumeration). Returns chained digest of the case."""
    seed = case_seed(base_seed, check.ID, idx)
    ch = Choices(prefix=prefix or (), seed=seed)
    out = guarded_run(check, ch, render=want_sample)
    rec = ch.rec
    keep = idx in selftest_n
    chain = hashlib.blake2b(digest_size=16)
    if keep:
        chain.update(log_digest(out.log).encode())
        chain.update(repr(rec).encode())
    agg.add_run(idx, out, rec, keep)
    agg.cases += 1
    if want_sample and out.sample is not None:
        agg.samples.append((idx, out.sample))
    if out.violation == "hang":
        agg.hang_seen = True
    if out.fanout is not None and out.violation != "hang":
        pos, n = out.fanout
        base = list(rec[:pos])
        for v in range(n):
            if v == rec[pos]:
                continue
            ch2 = Choices(prefix=base + [v], seed=derive_seed(seed, "fan", v))
            o2 = guarded_run(check, ch2)
            agg.add_run(idx, o2, ch2.rec, keep)
            if keep:
                chain.update(log_digest(o2.log).encode())
                chain.update(repr(ch2.rec).encode())
            if o2.violation == "hang":
                agg.hang_seen = True
                break
    if keep:
        agg.run_digests[idx] = chain.hexdigest()


def episode_child(check, base_seed, indices, selftest_n, sample_idx, wfd, systematic):
    """Runs in a freshly forked process: pristine library state."""
    agg = Agg()
    try:
        try:
            resource.setrlimit(resource.RLIMIT_AS, (6 << 30, 6 << 30))
        except Exception:
            pass
        if hasattr(check, "setup_process"):
            check.setup_process()
        for idx in indices:
            # (a check may spread its systematic prefix cases over every STRIDE-th index, so that a reduced run count
            #  - VERIF_CASES - still mixes systematic and drawn cases)
            prefix = case_prefix(check, systematic, idx)
            try:
                run_case(check, base_seed, idx, agg, selftest_n, idx in sample_idx, prefix)
            except BaseException:
                agg.errors.append(f"case {idx}: harness exception\n{traceback.format_exc()}")
                if len(agg.errors) >= 5:
                    break
                continue
            if agg.hang_seen:
                break
        if hasattr(check, "teardown_process"):
            check.teardown_process()
    except BaseException:
        agg.errors.append("episode: " + traceback.format_exc())
    data = agg.pack()
    with os.fdopen(wfd, "wb") as f:
        f.write(data)
    os._exit(0)


def run_episode(check, base_seed, indices, selftest_n, sample_idx, systematic, wall_s):
    """Fork an episode child, collect its Agg (or an error)."""
    r, w = os.pipe()
    pid = os.fork()
    if pid == 0:
        os.close(r)
        try:
            episode_child(check, base_seed, indices, selftest_n, sample_idx, w, systematic)
        finally:
            os._exit(3)
    os.close(w)
    chunks = []
    deadline = time.monotonic() + wall_s
    ok = True
    while True:
        left = deadline - time.monotonic()
        if left <= 0:
            ok = False
            break
        rl, _, _ = select.select([r], [], [], min(left, 5.0))
        if rl:
            b = os.read(r, 1 << 20)
            if not b:
                break
            chunks.append(b)
    os.close(r)
    if not ok:
        try:
            os.kill(pid, signal.SIGKILL)
        except ProcessLookupError:
            pass
    os.waitpid(pid, 0)
    if not ok:
        a = Agg()
        a.errors.append(f"episode {indices[0]}..{indices[-1]} exceeded its wall cap of {wall_s:.0f}s and was killed")
        return a
    try:
        return Agg.unpack(b"".join(chunks))
    except Exception:
        a = Agg()
        a.errors.append(f"episode {indices[0]}..{indices[-1]}: lost worker (no result)")
        return a


def worker_main(check, base_seed, episodes, selftest_n, sample_idx, systematic, wfd, stop_at):
    agg = Agg()
    truncated = 0
    for indices in episodes:
        if time.monotonic() > stop_at:
            truncated += len(indices)
            continue
        per_run = getattr(check, "RUN_WALL_S", RUN_WALL_S)
        a = run_episode(check, base_seed, indices, selftest_n, sample_idx, systematic,
                        wall_s=per_run * 8 + 0.5 * len(indices) + 60)
        agg.merge(a)
        if len(agg.errors) > 3:
            break
        if agg.hang_seen:
            # the property is already violated; the rest of this worker's share is not run (counted as truncated)
            stop_at = 0
    d = agg.pack()
    with os.fdopen(wfd, "wb") as f:
        f.write(len(d).to_bytes(8, "big"))
        f.write(truncated.to_bytes(8, "big"))
        f.write(d)
    os._exit(0)


def run_batch(check, base_seed, n_cases, episode_size, jobs, selftest_n, n_samples, wall_cap_s,
              systematic=None):
    """Distribute cases 0..n_cases-1 over ``jobs`` forked workers. Deterministic in content
    irrespective of jobs (each case's seed depends only on base_seed, check id and index)."""
    episodes = [list(range(s, min(s + episode_size, n_cases))) for s in range(0, n_cases, episode_size)]
    # sample a few cases for rendering: spread over the range
    sample_idx = set()
    if n_cases:
        for j in range(n_samples):
            sample_idx.add((j * max(1, n_cases // max(1, n_samples))) % n_cases)
    jobs = max(1, min(jobs, len(episodes) or 1))
    try:
        soft, _hard = resource.getrlimit(resource.RLIMIT_NOFILE)
        if soft != resource.RLIM_INFINITY:
            jobs = max(1, min(jobs, (soft - 16) // 3))       # one pipe per worker here, more inside each worker
    except Exception:
        pass
    stop_at = time.monotonic() + wall_cap_s
    procs = []
    try:
        for j in range(jobs):
            mine = episodes[j::jobs]
            r, w = os.pipe()
            pid = os.fork()
            if pid == 0:
                os.close(r)
                try:
                    worker_main(check, base_seed, mine, selftest_n, sample_idx, systematic, w, stop_at)
                finally:
                    os._exit(3)
            os.close(w)
            procs.append((pid, r))
    except BaseException:
        for pid, r in procs:                 # never leave workers behind when the batch cannot be set up
            try:
                os.kill(pid, signal.SIGKILL)
                os.waitpid(pid, 0)
            except Exception:
                pass
        raise
    total = Agg()
    truncated = 0
    for pid, r in procs:
        chunks = []
        while True:
            b = os.read(r, 1 << 20)
            if not b:
                break
            chunks.append(b)
        os.close(r)
        os.waitpid(pid, 0)
        data = b"".join(chunks)
        if len(data) < 16:
            total.errors.append(f"worker {pid} died without a result")
            continue
        n = int.from_bytes(data[:8], "big")
        truncated += int.from_bytes(data[8:16], "big")
        total.merge(Agg.unpack(data[16:16 + n]))
    return total, truncated


# --------------------------------------------------------------------------------------
# replay / shrink / confirm
# --------------------------------------------------------------------------------------

def replay_choices(check, choices, render=False):
    ch = Choices(prefix=choices, trace=render)
    out = guarded_run(check, ch, render=render)
    return out, ch


def in_child(fn, wall_s):
    """Run fn() in a forked child (pristine state, crash containment); returns its pickled
    return value or raises RuntimeError."""
    r, w = os.pipe()
    pid = os.fork()
    if pid == 0:
        os.close(r)
        try:
            res = fn()
            with os.fdopen(w, "wb") as f:
                pickle.dump(res, f)
        except BaseException:
            try:
                with os.fdopen(w, "wb") as f:
                    pickle.dump(("__error__", traceback.format_exc()), f)
            except Exception:
                pass
        finally:
            os._exit(0)
    os.close(w)
    chunks = []
    deadline = time.monotonic() + wall_s
    while True:
        left = deadline - time.monotonic()
        if left <= 0:
            os.kill(pid, signal.SIGKILL)
            os.waitpid(pid, 0)
            os.close(r)
            raise RuntimeError("child exceeded wall cap")
        rl, _, _ = select.select([r], [], [], min(left, 5.0))
        if rl:
            b = os.read(r, 1 << 20)
            if not b:
                break
            chunks.append(b)
    os.close(r)
    os.waitpid(pid, 0)
    if not chunks:
        raise RuntimeError("child died without a result")
    res = pickle.loads(b"".join(chunks))
    if isinstance(res, tuple) and res and res[0] == "__error__":
        raise RuntimeError("child raised:\n" + res[1])
    return res


def case_prefix(check, systematic, idx):
    if systematic is None:
        return None
    stride = getattr(check, "SYSTEMATIC_STRIDE", 1)
    if idx % stride == 0 and idx // stride < len(systematic):
        return systematic[idx // stride]
    return None


def run_case_sequence(check, base_seed, indices, systematic, render=False):
    """Execute the given cases one after the other in THIS process (as an episode does) and return what the last one
    reported: {"kind", "sig", "message", "digest", "trace"}. Used when a violation needs the history of its episode."""
    if hasattr(check, "setup_process"):
        check.setup_process()
    last = None
    for n, idx in enumerate(indices):
        agg = Agg()
        is_last = n == len(indices) - 1
        ch = Choices(prefix=case_prefix(check, systematic, idx) or (), seed=case_seed(base_seed, check.ID, idx), trace=False)
        out = guarded_run(check, ch, render=is_last and render)
        vio = None
        if out.violation is not None:
            vio = out
        elif out.fanout is not None:
            pos, nf = out.fanout
            base = list(ch.rec[:pos])
            for v in range(nf):
                if v == ch.rec[pos]:
                    continue
                ch2 = Choices(prefix=base + [v], seed=derive_seed(case_seed(base_seed, check.ID, idx), "fan", v))
                o2 = guarded_run(check, ch2, render=is_last and render)
                if o2.violation is not None:
                    vio = o2
                    break
        last = vio if vio is not None else out
    if hasattr(check, "teardown_process"):
        check.teardown_process()
    return {"kind": last.violation, "sig": last.sig, "message": last.message, "digest": log_digest(last.log), "trace": last.sample}


def episode_replay(check, viol, base_seed, episode_size, systematic):
    """A violation that does not reproduce from its own choice list alone: re-run the cases of its episode that came
    before it, in order, in one fresh process; shrink that list of predecessors; write a replay file of kind 'episode'."""
    idx = viol["index"]
    start = (idx // episode_size) * episode_size
    indices = list(range(start, idx + 1))
    kind = viol["kind"]

    def fails(ixs):
        try:
            res = in_child(lambda: run_case_sequence(check, base_seed, ixs, systematic), _wall(check) + 10 * len(ixs) + 60)
        except RuntimeError:
            return False
        return res["kind"] == kind
    if not fails(indices):
        return None, None
    # delta-debug the predecessors (the failing case itself stays last)
    pred = indices[:-1]
    n = 2
    deadline = time.monotonic() + 90
    while len(pred) >= 1 and time.monotonic() < deadline:
        chunk = max(1, len(pred) // n)
        reduced = False
        for i in range(0, len(pred), chunk):
            cand = pred[:i] + pred[i + chunk:]
            if fails(cand + [idx]):
                pred = cand
                n = max(n - 1, 2)
                reduced = True
                break
        if not reduced:
            if chunk == 1:
                break
            n = min(len(pred), n * 2)
    final = pred + [idx]
    res = in_child(lambda: run_case_sequence(check, base_seed, final, systematic, render=True), _wall(check) + 10 * len(final) + 60)
    outdir = os.path.join(os.environ.get("VERIF_OUT_DIR") or os.path.join(VERIF_DIR, "out"), "replays")
    os.makedirs(outdir, exist_ok=True)
    path = os.path.join(outdir, f"{check.ID}-{idx}-{res['kind'] or 'none'}-episode-{h64(final) & 0xFFFFFF:06x}.json")
    doc = {
        "property": check.ID, "kind": res["kind"], "sig": res["sig"], "message": res["message"], "verif_seed": base_seed,
        "case_index": idx, "episode": {"case_indices": final, "original_predecessors": len(indices) - 1},
        "choices": [], "log_digest": res["digest"], "trace": res["trace"], "repo_rev": repo_rev(),
        "note": ("this violation does not reproduce from its own choice list in a fresh process; it needs the listed earlier "
                 "cases of its episode to have run in the same process first (state carried between runs: the replay re-executes "
                 "the cases in order; each case is fully determined by verif_seed, the check id and its index)"),
    }
    with open(path, "w") as f:
        json.dump(doc, f, indent=1, default=str)
    return path, doc


def minimise(check, viol, budget_s=60, max_execs=2000):
    """Shrink the choice list of a violation; each re-execution in a fresh fork when the check
    says process state matters (ISOLATE), otherwise in one forked child."""
    kind = viol["kind"]
    isolate = getattr(check, "ISOLATE", False)

    def job():
        if hasattr(check, "setup_process"):
            check.setup_process()

        def still(c):
            if isolate:
                def one():
                    if hasattr(check, "setup_process"):
                        check.setup_process()
                    o, chx = replay_choices(check, c)
                    return (o.violation, chx.rec)
                try:
                    v, rec = in_child(one, _wall(check) + 30)
                except RuntimeError:
                    return False, c
                return v == kind, rec
            try:
                o, chx = replay_choices(check, c)
            except Exception:      # noqa: BLE001 -- a candidate that makes the harness itself fail is simply not kept
                return False, c
            return o.violation == kind, chx.rec

        deadline = time.monotonic() + budget_s
        return shrink(viol["choices"], still, max_execs=(4 if kind == "hang" else max_execs), deadline=deadline)

    try:
        best, execs = in_child(job, budget_s + _wall(check) * 2 + 60)
    except RuntimeError as e:
        return viol["choices"], 0, str(e)
    return best, execs, None


def write_replay(check, viol, minimal, base_seed, note=""):
    def job():
        if hasattr(check, "setup_process"):
            check.setup_process()
        o, chx = replay_choices(check, minimal, render=True)
        return {"kind": o.violation, "sig": o.sig, "message": o.message,
                "digest": log_digest(o.log), "trace": o.sample, "rec": chx.rec}
    res = in_child(job, _wall(check) + 60)
    outdir = os.path.join(os.environ.get("VERIF_OUT_DIR") or os.path.join(VERIF_DIR, "out"), "replays")   # scratch runs
    os.makedirs(outdir, exist_ok=True)
    name = f"{check.ID}-{viol['index']}-{res['kind'] or 'none'}-{h64(minimal) & 0xFFFFFF:06x}.json"
    path = os.path.join(outdir, name)
    doc = {
        "property": check.ID,
        "kind": res["kind"],
        "sig": res["sig"],
        "message": res["message"],
        "verif_seed": base_seed,
        "case_index": viol["index"],
        "choices": res["rec"],
        "original_choices_len": len(viol["choices"]),
        "log_digest": res["digest"],
        "trace": res["trace"],
        "repo_rev": repo_rev(),
        "note": note,
    }
    with open(path, "w") as f:
        json.dump(doc, f, indent=1, default=str)
    return path, doc


def confirm_in_fresh_interpreter(check, path):
    """Replay the file in a brand-new interpreter; it must report the same kind + digest."""
    env = dict(os.environ)
    env["PYTHONHASHSEED"] = "12345"
    env["PYTHONDONTWRITEBYTECODE"] = "1"
    p = subprocess.run([sys.executable, os.path.join(VERIF_DIR, "sim", "main.py"), check.ID, "--replay", path,
                        "--machine"], capture_output=True, text=True, env=env, timeout=_wall(check) + 120)
    for line in p.stdout.splitlines():
        if line.startswith("REPLAY-RESULT "):
            return json.loads(line[len("REPLAY-RESULT "):]), p
    return None, p


def load_known_findings(prop):
    try:
        with open(KNOWN_FINDINGS) as f:
            doc = json.load(f)
    except FileNotFoundError:
        return []
    return [e for e in doc.get("known_findings", []) if e.get("property") == prop]


# --------------------------------------------------------------------------------------
# determinism self-test
# --------------------------------------------------------------------------------------

def selftest_fresh(check, base_seed, n, expect, n_cases):
    """Recompute the first n case digests in a fresh interpreter, other PYTHONHASHSEED, one
    process; compare with what the 16-way batch produced."""
    env = dict(os.environ)
    env["PYTHONHASHSEED"] = "987"
    env["PYTHONDONTWRITEBYTECODE"] = "1"
    env["VERIF_SEED"] = str(base_seed)
    p = subprocess.run([sys.executable, os.path.join(VERIF_DIR, "sim", "main.py"), check.ID, "--digests", str(n),
                        "--of", str(n_cases)],
                       capture_output=True, text=True, env=env, timeout=1800)
    got = None
    for line in p.stdout.splitlines():
        if line.startswith("DIGESTS "):
            got = json.loads(line[len("DIGESTS "):])
    if got is None:
        return False, f"fresh interpreter produced no digests (rc={p.returncode}): {p.stderr[-2000:]}"
    got = {int(k): v for k, v in got.items()}
    bad = [i for i in sorted(expect) if got.get(i) != expect[i]]
    if bad:
        return False, f"digest mismatch for case indices {bad[:10]} (of {len(expect)})"
    return True, f"{len(expect)} cases agree: {jobs_note()} vs fresh interpreter (1 process, other PYTHONHASHSEED)"


def jobs_note():
    return f"{os.environ.get('VERIF_JOBS', '16')}-worker forked batch"


def digests_main(check, base_seed, n, systematic, n_cases):
    """--digests N --of CASES: executed in the fresh interpreter."""
    agg = Agg()
    episode = check.TIERS["quick"]["episode"]
    st = selftest_indices(n_cases, n)
    idxs = sorted(st)
    n = len(idxs)
    for s in range(0, n, episode):
        a = run_episode(check, base_seed, idxs[s:s + episode], st, set(), systematic, wall_s=1700)
        agg.merge(a)
    if agg.errors:
        print("ERRORS", agg.errors, file=sys.stderr)
    # second pass in the same interpreter: same digests again (run twice)
    agg2 = Agg()
    for s in range(0, n, episode):
        a = run_episode(check, base_seed, idxs[s:s + episode], st, set(), systematic, wall_s=1700)
        agg2.merge(a)
    if agg.run_digests != agg2.run_digests:
        print("DIGESTS-TWICE-MISMATCH", file=sys.stderr)
        print("DIGESTS {}")
        return 2
    print("DIGESTS " + json.dumps({str(k): v for k, v in agg.run_digests.items()}))
    return 0


# --------------------------------------------------------------------------------------
# main entry for a check
# --------------------------------------------------------------------------------------

def write_evidence(check, tier, base_seed, agg, wall_s, extra):
    samples = [s for _, s in sorted(agg.samples, key=lambda t: t[0])][:4]
    if not samples:
        samples = ["(no sample rendered)"]
    cov = {
        "evaluations": agg.evaluations,
        "distinct_nontrivial": len(agg.nontrivial) * DISTINCT_SAMPLE,
        "distinct_counts_exact": DISTINCT_SAMPLE == 1,
        "distinct_counts_note": ("exact" if DISTINCT_SAMPLE == 1 else
                                 f"estimated: 1-in-{DISTINCT_SAMPLE} of the hash values kept, count multiplied by {DISTINCT_SAMPLE}"),
        "rule": check.RULE,
        "samples": samples,
        "cases": agg.cases,
        "runs_per_hour": int(agg.evaluations / max(wall_s, 1e-6) * 3600),
        "sim_time_s": round(agg.sim_ns / 1e9, 3),
        "faults_fired": dict(sorted(agg.faults.items())),
        "probes": dict(sorted(agg.probes.items())),
        "distinct_schedules": len(agg.scheds) * DISTINCT_SAMPLE,
        "distinct_schedules_measure": "distinct digests of the (actor, event-kind) sequence of the run's event log",
        "components": check.COMPONENTS,
        "exhaustive": False,
    }
    if getattr(check, "COV_UNIVERSE", None):
        cov["model_transitions_covered"] = len(agg.cov)
        cov["model_transitions_total"] = check.COV_UNIVERSE
    cov.update(extra)
    doc = {
        "property_id": check.ID,
        "tier": tier,
        "seed": base_seed,
        "level": check.LEVEL,
        "coverage": cov,
        "assumptions": check.ASSUMPTIONS,
        "wall_s": round(wall_s, 2),
        "violations": extra.get("violations_reported", 0),
    }
    evdir = os.environ.get("VERIF_EVIDENCE_DIR") or os.path.join(VERIF_DIR, "evidence")   # scratch dir for mutant runs
    os.makedirs(evdir, exist_ok=True)
    path = os.path.join(evdir, f"{check.ID}.json")
    tmp = f"{path}.{os.getpid()}.tmp"          # unique: two runs of one check may share an evidence directory
    with open(tmp, "w") as f:
        json.dump(doc, f, indent=1, default=str)
    os.replace(tmp, path)
    return path


def main_check(check, argv):
    """Entry point of a check. Everything the run (and its forked workers) creates as temporary files lives in one
    scratch directory of its own, removed at the end - also what workers that had to be killed left behind."""
    import shutil
    import tempfile
    saved_tmp = (os.environ.get("TMPDIR"), tempfile.tempdir)
    scratch = tempfile.mkdtemp(prefix="verif_run_")
    os.environ["TMPDIR"] = scratch
    tempfile.tempdir = scratch
    try:
        return _main_check(check, argv)
    finally:
        tempfile.tempdir = saved_tmp[1]
        if saved_tmp[0] is None:
            os.environ.pop("TMPDIR", None)
        else:
            os.environ["TMPDIR"] = saved_tmp[0]
        shutil.rmtree(scratch, ignore_errors=True)


def _main_check(check, argv):
    t0 = time.monotonic()
    base_seed = int(os.environ.get("VERIF_SEED", DEFAULT_SEED))
    jobs = int(os.environ.get("VERIF_JOBS", "16"))
    systematic = check.systematic() if hasattr(check, "systematic") else None

    if "--replay" in argv:
        path = argv[argv.index("--replay") + 1]
        with open(path) as f:
            doc = json.load(f)

        def job():
            if doc.get("episode"):
                return run_case_sequence(check, int(doc["verif_seed"]), doc["episode"]["case_indices"], systematic, render=True)
            if hasattr(check, "setup_process"):
                check.setup_process()
            o, chx = replay_choices(check, doc["choices"], render=True)
            return {"kind": o.violation, "sig": o.sig, "message": o.message, "digest": log_digest(o.log),
                    "trace": o.sample}
        res = in_child(job, _wall(check) + 60 + (10 * len(doc["episode"]["case_indices"]) if doc.get("episode") else 0))
        if "--machine" in argv:
            print("REPLAY-RESULT " + json.dumps({"kind": res["kind"], "digest": res["digest"], "sig": res["sig"]}))
        else:
            print(f"VERIF_SEED={doc.get('verif_seed')} case={doc.get('case_index')}")
            print(json.dumps(res["trace"], indent=1, default=str))
            print(f"result: kind={res['kind']} message={res['message']}")
            print(f"digest: {res['digest']} (recorded {doc.get('log_digest')})")
        if res["kind"] is not None:
            print(f"VIOLATION property={check.ID} replay={path}")
            return 1
        return 0

    if "--digests" in argv:
        n = int(argv[argv.index("--digests") + 1])
        of = int(argv[argv.index("--of") + 1]) if "--of" in argv else n
        return digests_main(check, base_seed, n, systematic, of)

    tier = "quick"
    for a in argv:
        if a in ("quick", "thorough"):
            tier = a
    tier = os.environ.get("VERIF_TIER", tier) if not any(a in ("quick", "thorough") for a in argv) else tier
    cfg = check.TIERS[tier]
    n_cases = int(os.environ.get("VERIF_CASES", cfg["cases"]))
    if n_cases <= 0:
        print("HARNESS-ERROR nothing to run (VERIF_CASES <= 0): no verdict", file=sys.stderr)
        return 2
    print(f"VERIF_SEED={base_seed} check={check.ID} tier={tier} cases={n_cases} jobs={jobs} "
          f"repo={os.environ.get('VERIF_REPO', '/repo')}", flush=True)

    global DISTINCT_SAMPLE
    DISTINCT_SAMPLE = int(cfg.get("distinct_sample", 1))
    selftest_n = min(cfg.get("selftest", 64), n_cases)
    selftest_set = selftest_indices(n_cases, selftest_n)
    agg, truncated = run_batch(check, base_seed, n_cases, cfg["episode"], jobs, selftest_set,
                               n_samples=4, wall_cap_s=cfg.get("wall_cap_s", 3600), systematic=systematic)
    batch_wall = time.monotonic() - t0

    rc = 0
    extra = {"truncated_by_wall_cap": truncated, "violations_found": agg.n_violations}
    if agg.errors:
        first = agg.errors[0].strip().splitlines()
        print(f"HARNESS-ERROR {len(agg.errors)} episode(s)/case(s) failed in harness code (no verdict from them); last line of the "
              f"first: {first[-1] if first else ''}", file=sys.stderr)
        for e in agg.errors[:5]:
            print(e, file=sys.stderr)
        rc = 2

    # ---- determinism self-test ----
    harness_errors = rc == 2
    if rc == 0 and selftest_n and os.environ.get("VERIF_SKIP_SELFTEST") != "1":
        ok, msg = selftest_fresh(check, base_seed, selftest_n, agg.run_digests, n_cases)
        extra["determinism_selftest"] = {"ok": ok, "detail": msg, "cases": selftest_n}
        if not ok:
            print("HARNESS-ERROR determinism self-test failed: " + msg, file=sys.stderr)
            rc = 2
        else:
            print("selftest: " + msg, flush=True)

    # ---- violations ----
    reported = 0
    known = load_known_findings(check.ID)
    known_hit = {}
    # violations are processed even when some episodes failed in harness code (e.g. a changed library exhausting memory in
    # one run): each is reported only after its minimised replay reproduced in a fresh interpreter, which is what makes it
    # trustworthy; the exit status is then 1. Without a confirmed violation a batch with harness errors exits 2.
    if agg.violations and (rc == 0 or harness_errors):
        viols = sorted(agg.violations, key=lambda v: (v["index"], len(v["choices"])))
        fresh = []
        for v in viols:
            k = next((e for e in known if e.get("sig") == v["sig"]), None)
            if k is not None:
                known_hit.setdefault(v["sig"], (k, v))
            else:
                fresh.append(v)
        for sig, (k, v) in sorted(known_hit.items()):
            print(f"KNOWN-FINDING: property={check.ID} {k.get('what', sig)}")
        # report one violation per distinct kind (lowest case index), at most 3
        seen = set()
        for v in fresh:
            if v["kind"] in seen or len(seen) >= 3:
                continue
            seen.add(v["kind"])
            # does it reproduce from its own choice list in a fresh process at all? (a one-off - a stall of the machine, a
            # transient resource failure - or a violation that needs its episode's history does not; only a reproducing
            # one is worth shrinking)
            def _once(c=v["choices"]):
                if hasattr(check, "setup_process"):
                    check.setup_process()
                o, _chx = replay_choices(check, c)
                return o.violation
            standalone = False
            for _try in range(2):
                try:
                    if in_child(_once, _wall(check) + 60) == v["kind"]:
                        standalone = True
                        break
                except RuntimeError:
                    pass
            if standalone:
                minimal, execs, err = minimise(check, v, budget_s=int(os.environ.get("VERIF_SHRINK_S", cfg.get("shrink_s", 60))))
            else:
                minimal, execs, err = list(v["choices"]), 0, "did not reproduce stand-alone"
            try:
                path, doc = write_replay(check, v, minimal, base_seed,
                                         note=f"minimised with {execs} re-executions" + (f"; {err}" if err else ""))
            except RuntimeError as e:
                print(f"HARNESS-ERROR could not write replay: {e}", file=sys.stderr)
                rc = 2
                continue
            if doc["kind"] is None:
                # minimised list no longer fails?? fall back to original
                path, doc = write_replay(check, v, v["choices"], base_seed, note="unminimised (shrink result did not fail)")
            if doc["kind"] is None:
                # it does not fail stand-alone at all: it needs what earlier runs of its episode left behind in the process
                epath, edoc = episode_replay(check, v, base_seed, cfg["episode"], systematic)
                if epath is None:
                    print(f"HARNESS-ERROR the violation found at case {v['index']} ({v['kind']}) reproduces neither from its own "
                          f"choice list nor from its episode prefix; not reporting it", file=sys.stderr)
                    rc = 2
                    continue
                path, doc, execs = epath, edoc, 0
            res, proc = confirm_in_fresh_interpreter(check, path)
            if res is None or res["kind"] is None or res["kind"] != doc["kind"] or res["digest"] != doc["log_digest"]:
                print(f"HARNESS-ERROR replay of {path} did not reproduce in a fresh interpreter "
                      f"(got {res}); not reporting it as a violation", file=sys.stderr)
                if proc is not None:
                    print(proc.stderr[-1500:], file=sys.stderr)
                rc = 2
                continue
            print(f"violation kind={doc['kind']}: {doc['message']}")
            if doc.get("episode"):
                print(f"  case={v['index']}: needs earlier cases of its episode in the same process; minimal sequence of cases "
                      f"{doc['episode']['case_indices']}")
            else:
                print(f"  case={v['index']} choices {len(v['choices'])} -> {len(minimal)} after {execs} re-executions")
            print(f"VIOLATION property={check.ID} replay={path}")
            reported += 1
        if reported:
            rc = 1
    extra["violations_reported"] = reported
    extra["known_findings"] = sorted(known_hit)

    if rc == 0 and hasattr(check, "vacuity"):
        why = check.vacuity(agg)
        if why:
            print("HARNESS-ERROR the batch is vacuous (no verdict): " + why, file=sys.stderr)
            extra["vacuous"] = why
            rc = 2

    for name in getattr(check, "EXPECTED_PROBES", ()):
        if agg.probes.get(name, 0) == 0 and agg.faults.get(name, 0) == 0:
            print(f"warning: probe/fault '{name}' never fired in this batch", flush=True)

    for name in getattr(check, "DEGRADED_PROBES", ()):
        if agg.probes.get(name, 0):
            print(f"warning: '{name}' in {agg.probes[name]} runs: a seam of the harness found nothing to attach to in this "
                  f"version of the library, so that part of the exploration did not take place", flush=True)
            extra.setdefault("degraded", []).append(name)

    wall = time.monotonic() - t0
    extra["batch_wall_s"] = round(batch_wall, 2)
    if hasattr(check, "evidence_extra"):
        extra.update(check.evidence_extra(tier, agg))
    path = write_evidence(check, tier, base_seed, agg, wall, extra)
    print(f"{check.ID} {tier}: evaluations={agg.evaluations} cases={agg.cases} distinct_nontrivial={len(agg.nontrivial) * DISTINCT_SAMPLE} "
          f"schedules={len(agg.scheds) * DISTINCT_SAMPLE} violations_found={agg.n_violations} reported={reported} "
          f"wall={wall:.1f}s rate={int(agg.evaluations / max(batch_wall, 1e-6) * 3600)}/h evidence={path}", flush=True)
    if truncated:
        print(f"note: {truncated} cases not run (wall cap, or the batch was cut short after a run tripped the CPU-time backstop)",
              flush=True)
    return rc
