"""Simulation kernel: discrete-event clock, tasks, byte pipe, simulated socket / raw disk.

The library under test is synchronous, so *the blocking call is the yield point*: when real
library code calls ``SimSocket.recv`` and nothing has arrived, ``recv`` itself steps the
world (runs producer / link events, advances the simulated clock) until data, FIN, an injected
error or the socket's timeout deadline arrives.  Nothing here reads a real clock, sleeps, or
uses a real network; the only real OS object is the (unconnected) descriptor a
``socket.socket`` subclass must own so that ``isinstance(x, socket.socket)`` is true.
"""
import errno
import heapq
import io
import os
import socket

_HARNESS_ROOT = os.path.realpath(os.path.dirname(os.path.dirname(os.path.abspath(__file__))))


class LivenessViolation(BaseException):
    """Raised *inside* a library call when a simulated source has been polled again and again
    after it reported end-of-stream: the caller is not going to terminate. BaseException so
    no ``except Exception`` in the code under test can swallow it."""


class SimDeadlock(BaseException):
    """The consumer is blocked in recv(), and no event is left that could ever wake it: a
    real blocking recv would hang for ever."""


class StepBudgetExceeded(BaseException):
    """A run executed more simulator steps than its cap."""


class HarnessBug(BaseException):
    """An exception escaped from simulator / check code that real library code was calling into
    (a stub's chunking callback, a producer task). BaseException so it passes through the library
    and reaches the runner, which reports it as a harness error (exit 2), never as a violation."""


def _guard(fn, *args):
    try:
        return fn(*args)
    except Exception as e:      # noqa: BLE001
        raise HarnessBug(f"{type(e).__name__}: {e} in simulator callback {getattr(fn, '__name__', fn)}") from e


EOF_READ_BUDGET = 8          # reads at end-of-stream without any progress in between; the 9th is fatal. The consumer loop
                             # resets the count whenever an item is yielded (a framer may poll EOF once per packet)


class World:
    """Event queue + simulated clock + event log."""

    __slots__ = ("ch", "now", "heap", "seq", "log", "faults", "probes", "steps", "max_steps")

    def __init__(self, ch, max_steps=200_000):
        self.ch = ch
        self.now = 0              # ns
        self.heap = []
        self.seq = 0
        self.log = []
        self.faults = {}
        self.probes = {}
        self.steps = 0
        self.max_steps = max_steps

    # -- bookkeeping ---------------------------------------------------------------------
    def ev(self, actor, kind, *data):
        """Append to the event log. Never draws, never reads a real clock."""
        self.log.append((len(self.log), self.now, actor, kind) + data)

    def fault(self, kind, n=1):
        self.faults[kind] = self.faults.get(kind, 0) + n

    def probe(self, name, n=1):
        self.probes[name] = self.probes.get(name, 0) + n

    # -- events --------------------------------------------------------------------------
    def after(self, dt, fn, *args):
        tie = self.ch.draw(4, "tie")
        self.seq += 1
        heapq.heappush(self.heap, (self.now + dt, tie, self.seq, fn, args))

    def step(self):
        """Run one event; False when none is left."""
        if not self.heap:
            return False
        self.steps += 1
        if self.steps > self.max_steps:
            raise StepBudgetExceeded()
        t, _tie, _seq, fn, args = heapq.heappop(self.heap)
        if t > self.now:
            self.now = t
        _guard(fn, *args)
        return True

    def next_time(self):
        return self.heap[0][0] if self.heap else None

    def drain(self):
        while self.step():
            pass

    # -- tasks: generators yielding ('send', pipe, bytes) | ('sleep', ns) | ('fin', pipe)
    #           | ('rst', pipe) | ('call', fn) --------------------------------------------
    def spawn(self, name, gen, delay=0):
        self.after(delay, self._advance, name, gen)

    def _advance(self, name, gen):
        try:
            op = next(gen)
        except StopIteration:
            self.ev(name, "task_done")
            return
        kind = op[0]
        dt = 0
        if kind == "send":
            op[1].deliver(op[2], name)
        elif kind == "sleep":
            dt = op[1]
        elif kind == "fin":
            op[1].close_write(name)
        elif kind == "rst":
            op[1].reset(name)
        elif kind == "call":
            op[1]()
        self.after(dt, self._advance, name, gen)


class Pipe:
    """Reliable ordered byte pipe (what TCP gives the receiver)."""

    __slots__ = ("world", "buf", "fin", "err", "eof_reads", "delivered", "name", "eof_budget")

    def __init__(self, world, name="pipe"):
        self.world = world
        self.buf = bytearray()
        self.fin = False
        self.err = None
        self.eof_reads = 0
        self.delivered = 0
        self.name = name
        self.eof_budget = EOF_READ_BUDGET

    def deliver(self, data, who="producer"):
        if self.fin or self.err is not None:
            return
        self.buf += data
        self.delivered += len(data)
        self.world.ev(who, "deliver", len(data))

    def close_write(self, who="producer"):
        if not self.fin:
            self.fin = True
            self.world.ev(who, "fin", self.delivered)

    def reset(self, who="link"):
        if self.err is None:
            self.err = ConnectionResetError(errno.ECONNRESET, "simulated connection reset by peer")
            self.err.sim_injected = True
            self.world.ev(who, "rst", self.delivered)


class SimSocket(socket.socket):
    """A real ``socket.socket`` object (unconnected AF_UNIX descriptor) whose ``recv`` is the
    simulator's. ``take(n_available, bufsize)`` decides how many of the arrived bytes one recv
    returns (>= 1)."""

    def __init__(self, world, pipe, take=None, name="sock"):
        super().__init__(socket.AF_UNIX, socket.SOCK_STREAM)
        self._w = world
        self._pipe = pipe
        self._take = take
        self._sim_timeout = None
        self._name = name
        self.recv_calls = 0
        self.raised = None          # the exception object recv raised, if any

    # timeouts live in simulated time only
    def settimeout(self, value):
        self._sim_timeout = value

    def gettimeout(self):
        return self._sim_timeout

    def recv(self, bufsize, flags=0):
        w = self._w
        p = self._pipe
        self.recv_calls += 1
        # argument checking as a real socket does it: the answer is attributable to the caller, not to the harness
        try:
            import operator as _operator
            bufsize = _operator.index(bufsize)
            flags = _operator.index(flags)
        except TypeError as e_:
            e_.sim_injected = True
            raise
        if bufsize < 0:
            e_ = ValueError("negative buffersize in recv")
            e_.sim_injected = True
            raise e_
        peek = bool(flags & socket.MSG_PEEK)
        waitall = bool(flags & socket.MSG_WAITALL)
        if flags & ~(socket.MSG_PEEK | socket.MSG_WAITALL):
            raise HarnessBug(f"SimSocket.recv(flags={flags:#x}) is not simulated")
        deadline = None
        if self._sim_timeout is not None:
            deadline = w.now + int(self._sim_timeout * 1e9)
        while True:
            if p.buf and not (waitall and len(p.buf) < bufsize and not p.fin and p.err is None
                              and (w.next_time() is not None) and (deadline is None or w.next_time() <= deadline)):
                avail = min(len(p.buf), bufsize)
                if avail == 0:
                    w.ev(self._name, "recv", 0)
                    return b""
                n = avail if (self._take is None or waitall) else _guard(self._take, avail)
                out = bytes(p.buf[:n])
                if not peek:
                    del p.buf[:n]
                w.ev(self._name, "recv_peek" if peek else "recv", n)
                return out
            if p.buf:
                w.step()            # MSG_WAITALL: keep waiting for the rest while something can still arrive
                continue
            if p.err is not None:
                w.ev(self._name, "recv_err", type(p.err).__name__)
                self.raised = p.err
                raise p.err
            if p.fin:
                p.eof_reads += 1
                w.ev(self._name, "recv_eof", p.eof_reads)
                if p.eof_reads > p.eof_budget:
                    raise LivenessViolation(
                        f"recv() called {p.eof_reads} times after the peer closed the connection")
                return b""
            # block: let the rest of the world run
            nt = w.next_time()
            if nt is None:
                if deadline is not None:
                    w.now = max(w.now, deadline)
                    w.ev(self._name, "recv_timeout")
                    self.raised = TimeoutError("timed out")
                    self.raised.sim_injected = True
                    raise self.raised
                w.ev(self._name, "deadlock")
                raise SimDeadlock("recv() blocked with no pending event")
            if deadline is not None and nt > deadline:
                w.now = max(w.now, deadline)
                w.ev(self._name, "recv_timeout")
                self.raised = TimeoutError("timed out")
                self.raised.sim_injected = True
                raise self.raised
            w.step()


    # every other way of receiving from a socket is expressed through the one simulated recv(), so a library that
    # switches to recv_into / recvfrom / recvmsg / makefile still reads the simulated pipe
    def recv_into(self, buffer, nbytes=0, flags=0):
        mv = memoryview(buffer).cast("B")
        n = len(mv) if not nbytes else min(nbytes, len(mv))
        data = self.recv(n, flags)
        mv[:len(data)] = data
        return len(data)

    def recvfrom(self, bufsize, flags=0):
        return self.recv(bufsize, flags), None

    def recvfrom_into(self, buffer, nbytes=0, flags=0):
        return self.recv_into(buffer, nbytes, flags), None

    def recvmsg(self, bufsize, ancbufsize=0, flags=0):
        return self.recv(bufsize, flags), [], 0, None

    def recvmsg_into(self, buffers, ancbufsize=0, flags=0):
        total = 0
        for b in buffers:
            n = self.recv_into(b)
            total += n
            if n < len(memoryview(b).cast("B")):
                break
        return total, [], 0, None

    def makefile(self, mode="r", buffering=None, **kw):
        if "b" not in mode or any(c in mode for c in "wa+"):
            raise HarnessBug(f"SimSocket.makefile({mode!r}) is not simulated")
        sock = self

        class _R(io.RawIOBase):
            def readable(self):
                return True

            def readinto(self, b):
                return sock.recv_into(b)
        raw = _R()
        if buffering == 0:
            return raw
        return io.BufferedReader(raw, buffer_size=buffering if (buffering and buffering > 0) else io.DEFAULT_BUFFER_SIZE)

    # the placeholder descriptor is not connected; callers always pass connected sockets, so answer like one
    def getpeername(self):
        return "/simulated/peer"

    def getsockname(self):
        return "/simulated/local"

    def getsockopt(self, level, optname, buflen=None):
        if level == socket.SOL_SOCKET and optname == socket.SO_ERROR:
            return 0
        if level == socket.SOL_SOCKET and optname == socket.SO_TYPE:
            return socket.SOCK_STREAM
        return super().getsockopt(level, optname) if buflen is None else super().getsockopt(level, optname, buflen)

    def setblocking(self, flag):
        self._sim_timeout = None if flag else 0.0

    def getblocking(self):
        return self._sim_timeout != 0.0

    def fileno(self):
        # select()/poll() on the placeholder descriptor would observe the real (empty) socket, not the simulation
        return super().fileno()


class SimRaw(io.RawIOBase):
    """Simulated raw disk file. ``short(n_possible) -> 1..n_possible`` decides how much one
    readinto() returns (a real ``io.BufferedReader`` above absorbs the short reads).
    ``fail_at`` = index of the readinto call that raises EIO (None: never)."""

    def __init__(self, world, data: bytes, short=None, fail_at=None, name="disk", seekable=True):
        super().__init__()
        self._seekable = seekable       # False: a pipe / FIFO / stdin-like finite stream
        self._w = world
        self._data = data
        self._pos = 0
        self._short = short
        self._fail_at = fail_at
        self._name = name
        self.calls = 0
        self.eof_reads = 0
        self.eof_budget = EOF_READ_BUDGET     # reads at end-of-file WITHOUT progress in between (the consumer resets the count)
        self.raised = None

    def readable(self):
        return True

    def seekable(self):
        return self._seekable

    def tell(self):
        if not self._seekable:
            e_ = io.UnsupportedOperation("underlying stream is not seekable")
            e_.sim_injected = True          # what a real pipe answers
            raise e_
        return self._pos

    def seek(self, offset, whence=0):
        if not self._seekable:
            self._w.ev(self._name, "seek_refused")
            e_ = io.UnsupportedOperation("underlying stream is not seekable")
            e_.sim_injected = True
            raise e_
        if whence == 0:
            self._pos = offset
        elif whence == 1:
            self._pos += offset
        elif whence == 2:
            self._pos = len(self._data) + offset
        if self._pos < 0:
            self._pos = 0
        self._w.ev(self._name, "seek", self._pos)
        return self._pos

    def readinto(self, b):
        idx = self.calls
        self.calls += 1
        if self._fail_at is not None and idx == self._fail_at:
            self._w.ev(self._name, "eio", idx)
            self.raised = OSError(errno.EIO, "simulated I/O error")
            self.raised.sim_injected = True
            raise self.raised
        possible = min(len(b), len(self._data) - self._pos)
        if possible <= 0:
            self.eof_reads += 1
            self._w.ev(self._name, "read_eof", self.eof_reads)
            if self.eof_reads > self.eof_budget:
                raise LivenessViolation(
                    f"read() reached the raw device {self.eof_reads} times at end-of-file")
            return 0
        n = possible if self._short is None else _guard(self._short, possible)
        b[:n] = self._data[self._pos:self._pos + n]
        self._pos += n
        self._w.ev(self._name, "read", n)
        return n


class SimClock:
    """Stands in for the ``time`` module inside space_packet_parser.packets. Reads the
    simulated clock; fault modes: frozen / step back / step forward, decided per call."""

    def __init__(self, world, mode=None):
        self._w = world
        self._mode = mode            # callable(now_ns, call_index) -> ns, or None
        self.calls = 0
        self.base = 1_700_000_000_000_000_000

    def time_ns(self):
        i = self.calls
        self.calls += 1
        t = self.base + self._w.now
        if self._mode is not None:
            t = self._mode(t, i)
        return t

    def time(self):
        return self.time_ns() / 1e9

    def monotonic(self):
        return self._w.now / 1e9

    def sleep(self, s):
        self._w.now += int(s * 1e9)

    def monotonic_ns(self):
        return self._w.now

    def perf_counter(self):
        return self._w.now / 1e9

    def perf_counter_ns(self):
        return self._w.now

    def process_time(self):
        return self._w.now / 1e9

    def process_time_ns(self):
        return self._w.now

    def __getattr__(self, name):
        # anything else the real module offers (strftime, gmtime, struct_time, timezone ...) is not a clock the
        # simulation has to own: delegate to the real module instead of failing inside library code
        import time as _real_time
        return getattr(_real_time, name)


class NullOut(io.TextIOWrapper):
    """stdout stand-in while the library prints its progress bar: a real text stream (complete file API: isatty(),
    encoding, buffer, fileno() raising like any in-memory stream ...) over a sink that discards everything."""

    class _Sink(io.RawIOBase):
        def writable(self):
            return True

        def write(self, b):
            return len(b)

    def __init__(self):
        super().__init__(io.BufferedWriter(NullOut._Sink()), encoding="utf-8", errors="replace", write_through=True)


def raised_in_harness(exc) -> bool:
    """True if the innermost frame of the exception's traceback is harness code (/verif), i.e. the exception was raised
    BY a simulator stub or a check, not by the library or by Python on the library's behalf."""
    import os as _os
    if getattr(exc, "sim_injected", False):
        return False                  # a fault the simulator injected on purpose (EIO, connection reset, timeout)
    if isinstance(exc, RuntimeError) and isinstance(exc.__cause__, (StopIteration, StopAsyncIteration)):
        # PEP 479: a StopIteration escaping a generator frame is replaced by a RuntimeError whose own traceback starts
        # at the CALLER of next() (here: harness code); where it was raised is the traceback of its cause
        return raised_in_harness(exc.__cause__)
    tb = exc.__traceback__
    if tb is None:
        return False
    while tb.tb_next is not None:
        tb = tb.tb_next
    fn = _os.path.realpath(tb.tb_frame.f_code.co_filename)
    # (compiled extensions report source names relative to their build directory - "src/lxml/etree.pyx" - which resolve
    # against the current directory: only a file that exists under the harness root is harness code)
    return fn.startswith(_HARNESS_ROOT + _os.sep) and _os.path.isfile(fn)


def library_exception(exc):
    """Called by the checks on every exception that came out of a library call: an exception raised by harness code
    (a stub lacking an attribute, a bug in a callback) must never be reported as the library's."""
    if raised_in_harness(exc):
        raise HarnessBug(f"{type(exc).__name__}: {exc} raised inside harness code while the library was calling it") from exc
    return exc


class ClockSeam:
    """Installs a SimClock where the library module keeps its clock: the module attribute ``time`` (``import time``)
    and/or directly imported clock functions (``from time import time_ns``). If neither exists the run simply has no
    clock faults (``installed`` stays False); it never fails because of how the library imports its clock."""
    _FUNCS = ("time_ns", "time", "monotonic", "monotonic_ns", "perf_counter", "perf_counter_ns", "process_time",
              "process_time_ns", "sleep")

    def __init__(self, module, clock):
        self.module = module
        self.clock = clock
        self.saved = []              # (module dict, name, original)
        self.installed = False

    def __enter__(self):
        import sys as _sys
        import time as _real_time
        import types as _types
        pre = self.module.__name__ + "."
        mods = [self.module] + [m for n, m in sorted(_sys.modules.items()) if n.startswith(pre) and isinstance(m, _types.ModuleType)]
        for m in mods:               # the module itself and, if it is a package, its loaded submodules
            d = m.__dict__
            if isinstance(d.get("time"), _types.ModuleType) and d["time"] is _real_time:
                self.saved.append((d, "time", d["time"]))
                d["time"] = self.clock
                self.installed = True
            for f in self._FUNCS:
                if f == "time":
                    continue
                if d.get(f) is getattr(_real_time, f, object()):
                    self.saved.append((d, f, d[f]))
                    d[f] = getattr(self.clock, f)
                    self.installed = True
        return self

    def __exit__(self, *exc):
        for d, k, v in reversed(self.saved):
            d[k] = v
        self.saved = []
        return False
