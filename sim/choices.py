"""The choice source: one integer decides everything.

Every decision of a simulated run (workload shape, payload sub-seeds, scheduling, delays,
chunk sizes, faults, swarm knobs) is obtained from one `Choices` object through
``draw(n) -> int in [0, n)``.  Design rule used by every check: **0 is the simplest answer**
(no fault, smallest size, first option, deliver now), so the generic shrinker below --
delete spans, zero spans, lower values -- shrinks workloads and fault sequences without any
per-check code.

Modes
-----
generate : ``Choices(seed=<int>)``                 draws come from MT19937(seed)
replay   : ``Choices(prefix=[...])``               draws come from the list; exhausted or
                                                    out-of-range entries give 0
hybrid   : ``Choices(prefix=[...], seed=<int>)``   list first, then the PRNG (used for
                                                    enumerated fault points: the prefix pins
                                                    workload + crash point, the rest is drawn)
Every draw is recorded in ``rec`` so any run can be replayed exactly from ``rec`` alone.
"""
import hashlib
import random


def derive_seed(*parts) -> int:
    """Stable 64-bit seed from arbitrary printable parts (no Python hash())."""
    h = hashlib.blake2b(digest_size=8)
    for p in parts:
        h.update(repr(p).encode())
        h.update(b"\x00")
    return int.from_bytes(h.digest(), "big")


class Choices:
    __slots__ = ("prefix", "rng", "rec", "labels", "_trace")

    def __init__(self, prefix=(), seed=None, trace=False):
        self.prefix = list(prefix)
        self.rng = random.Random(seed) if seed is not None else None
        self.rec = []
        self._trace = trace
        self.labels = [] if trace else None

    # -- the one primitive -------------------------------------------------------------
    def draw(self, n: int, label: str = "") -> int:
        """Uniform-ish integer in [0, n). n >= 1."""
        i = len(self.rec)
        if n <= 1:
            v = 0
        elif i < len(self.prefix):
            v = self.prefix[i]
            if not 0 <= v < n:
                v = 0
        elif self.rng is not None:
            if n <= 0xFFFFFFFF:
                v = (self.rng.getrandbits(32) * n) >> 32
            else:
                v = (self.rng.getrandbits(96) * n) >> 96
        else:
            v = 0
        self.rec.append(v)
        if self._trace:
            self.labels.append(label)
        return v

    # -- conveniences (all built on draw; 0 == simplest) ------------------------------------
    def chance(self, k: int, n: int, label: str = "") -> bool:
        """True with probability k/n; a recorded 0 is always False."""
        return self.draw(n, label) >= n - k

    def pick(self, seq, label: str = ""):
        """Pick an element; seq[0] is the simplest."""
        return seq[self.draw(len(seq), label)]

    def weighted(self, pairs, label: str = ""):
        """pairs = [(weight, value), ...]; first value is the simplest (drawn for 0)."""
        total = 0
        for w, _ in pairs:
            total += w
        v = self.draw(total, label)
        for w, val in pairs:
            if v < w:
                return val
            v -= w
        return pairs[-1][1]

    def span(self, lo: int, hi: int, label: str = "") -> int:
        """Integer in [lo, hi] inclusive; lo is simplest."""
        return lo + self.draw(hi - lo + 1, label)


def payload(subseed: int, length: int) -> bytes:
    """Bulk bytes from one drawn sub-seed. Sub-seed 0 is all-zero bytes (simplest)."""
    if length <= 0:
        return b""
    if subseed == 0:
        return bytes(length)
    return hashlib.shake_128(subseed.to_bytes(8, "big")).digest(length)


# ----------------------------------------------------------------------------------------
# Shrinker
# ----------------------------------------------------------------------------------------

def shrink(choices, still_fails, max_execs=2000, deadline=None, clock=None):
    """Minimise a choice list.

    still_fails(list) -> (bool, rec) : re-executes and says whether the *same* violation
    (same property, same kind) recurs; ``rec`` is the choice list actually consumed, which
    becomes the new candidate (this trims unused tail for free).
    Returns (minimal list, number of executions used).
    """
    import time as _time
    clock = clock or _time.monotonic
    execs = 0
    best = list(choices)

    def over():
        return execs >= max_execs or (deadline is not None and clock() > deadline)

    def attempt(cand):
        nonlocal execs, best
        if over():
            return False
        execs += 1
        ok, rec = still_fails(cand)
        if ok:
            rec = list(rec)
            # prefer the consumed record when it is no longer than the candidate
            new = rec if len(rec) <= len(cand) else cand
            best = new
            return True
        return False

    # strip trailing zeros first (they are the default anyway)
    def strip(lst):
        lst = list(lst)
        while lst and lst[-1] == 0:
            lst.pop()
        return lst

    improved = True
    rounds = 0
    while improved and not over() and rounds < 12:
        rounds += 1
        improved = False
        before = list(best)
        # 1. truncate tail (binary)
        n = len(best)
        k = n // 2
        while k >= 1 and not over():
            if len(best) > k and attempt(best[:len(best) - k]):
                continue
            k //= 2
        # 2. delete spans
        for size in (16, 8, 4, 2, 1):
            i = len(best) - size
            while i >= 0 and not over():
                cand = best[:i] + best[i + size:]
                if not attempt(cand):
                    pass
                i -= size if size > 1 else 1
                if i > len(best) - size:
                    i = len(best) - size
        # 3. zero spans
        for size in (8, 4, 2, 1):
            i = 0
            while i < len(best) and not over():
                seg = best[i:i + size]
                if any(seg):
                    cand = best[:i] + [0] * len(seg) + best[i + size:]
                    attempt(cand)
                i += size
        # 4. lower single values (binary search towards 0)
        i = 0
        while i < len(best) and not over():
            v = best[i]
            if v > 0:
                lo, hi = 0, v
                # invariant: hi fails (known), try to find smallest failing value
                while lo < hi and not over():
                    mid = (lo + hi) // 2
                    cand = best[:i] + [mid] + best[i + 1:]
                    if attempt(cand):
                        hi = mid
                        if i >= len(best):
                            break
                    else:
                        lo = mid + 1
            i += 1
        best = strip(best)
        if best != before:
            improved = True
    return strip(best), execs
