"""Packet factory, reference framer, and access to the library under test.

Expected bytes never come from the library: the factory packs headers itself.
"""
import os
import sys
import types

from .choices import payload

REPO = os.environ.get("VERIF_REPO", "/repo")


def import_library():
    """Import space_packet_parser from $VERIF_REPO (default /repo): the working tree itself."""
    if REPO not in sys.path:
        sys.path.insert(0, REPO)
    import logging
    # log output is not judged, but code guarded by logger.isEnabledFor(...) must run as it does for users: the library's
    # logger gets a discarding handler at DEBUG level and does not propagate (stderr stays clean). The CLI check removes
    # this again and lets the CLI configure logging itself.
    lg = logging.getLogger("space_packet_parser")
    if not any(isinstance(h, logging.NullHandler) for h in lg.handlers):
        lg.addHandler(logging.NullHandler())
    lg.setLevel(logging.DEBUG)
    lg.propagate = False
    import space_packet_parser  # noqa: F401
    from space_packet_parser import packets
    got = os.path.realpath(os.path.dirname(os.path.dirname(space_packet_parser.__file__)))   # (packets may be a module or a package)
    want = os.path.realpath(REPO)
    if got != want:
        raise RuntimeError(f"space_packet_parser imported from {got}, expected {want}")
    return packets


# ---------------------------------------------------------------------------------------
# CCSDS packets
# ---------------------------------------------------------------------------------------
FLAG_CONT, FLAG_FIRST, FLAG_LAST, FLAG_UNSEG = 0, 1, 2, 3


def build_packet(version, type_, shf, apid, flags, count, data: bytes) -> bytes:
    """Pack a CCSDS primary header (own bit packing) + data field (1..65536 bytes)."""
    assert 1 <= len(data) <= 65536
    w0 = ((version & 7) << 13) | ((type_ & 1) << 12) | ((shf & 1) << 11) | (apid & 0x7FF)
    w1 = ((flags & 3) << 14) | (count & 0x3FFF)
    w2 = len(data) - 1
    return w0.to_bytes(2, "big") + w1.to_bytes(2, "big") + w2.to_bytes(2, "big") + data


def header_tuple(pkt: bytes):
    """(version, type, shf, apid, flags, count, data_length_field) of a complete packet."""
    w0 = int.from_bytes(pkt[0:2], "big")
    w1 = int.from_bytes(pkt[2:4], "big")
    w2 = int.from_bytes(pkt[4:6], "big")
    return (w0 >> 13, (w0 >> 12) & 1, (w0 >> 11) & 1, w0 & 0x7FF, w1 >> 14, w1 & 0x3FFF, w2)


_EXTREME_APIDS = (0, 2047, 1, 1024, 11)
_EXTREME_COUNTS = (0, 16383, 1, 8192)


def draw_header(ch):
    """Header fields with extremes favoured; 0-draws give the all-zero header."""
    version = ch.weighted([(6, 0), (1, 7), (1, 3)], "ver")
    type_ = ch.draw(2, "type")
    shf = ch.draw(2, "shf")
    if ch.chance(1, 2, "apid_ext"):
        apid = ch.pick(_EXTREME_APIDS, "apid")
    else:
        apid = ch.draw(2048, "apid")
    flags = ch.pick((3, 0, 1, 2), "flags")
    if ch.chance(1, 2, "cnt_ext"):
        count = ch.pick(_EXTREME_COUNTS, "count")
    else:
        count = ch.draw(16384, "count")
    return version, type_, shf, apid, flags, count


def draw_data_len(ch, read_size=None, allow_max=True, cap=None):
    """Data-field length with atoms at the interesting sizes. 0-draw -> 1 byte.
    cap: upper bound used when the run reads byte-by-byte (keeps the run cheap)."""
    kind = ch.weighted([(6, "tiny"), (4, "small"), (2, "rs"), (2, "mid"), (1, "max"), (2, "pow2")], "dlen_kind")
    if kind == "pow2":
        # data-field or whole-packet lengths around powers of two (length-field bit patterns 0x00FF/0x0100, 0x0FFF/0x1000,
        # 0x7FFF/0x8000 ...)
        top = 16 if (cap is None and allow_max) else (15 if cap is None else max(3, cap.bit_length() - 1))
        e = 3 + ch.draw(max(1, top - 2), "p2_exp")
        d = ch.pick((0, -1, 1, -6, -7, -5), "p2_delta")
        n = (1 << e) + d
        hi = 65536 if cap is None else cap
        return max(1, min(hi, n))
    if cap is not None:
        if kind == "tiny":
            return ch.pick((1, 2, 6, 7, 3, 5, 8), "dlen")
        if kind == "rs" and read_size and read_size > 8:
            m = 1 + ch.draw(3, "rs_mult")
            d = ch.pick((0, -1, 1), "rs_delta")
            return max(1, min(cap, m * read_size + d - 6))
        return 1 + ch.draw(min(cap, 64 if kind == "small" else cap), "dlen")
    if kind == "tiny":
        return ch.pick((1, 2, 6, 7, 3, 5, 8), "dlen")
    if kind == "small":
        return 1 + ch.draw(64, "dlen")
    if kind == "rs" and read_size and read_size > 8:
        # total packet length = 6 + dlen lands on read-size multiples +-1
        m = 1 + ch.draw(3, "rs_mult")
        d = ch.pick((0, -1, 1), "rs_delta")
        return max(1, min(65536, m * read_size + d - 6))
    if kind == "max" and allow_max:
        return ch.pick((65536, 65535, 65530), "dlen")
    return 1 + ch.draw(2000, "dlen")


MAGICS = (b"\x1f\x8b\x08\x00", b"BZh9", b"\xfd7zX", b"\x28\xb5\x2f\xfd", b"PK\x03\x04", b"\x04\x22\x4d\x18", b"\x78\x9c",
          b"\xef\xbb\xbf", b"\xff\xfe", b"\xfe\xff", b"\x1f\x8b", b"#!/b", b"\r\n\r\n", b"\x1a\xcf\xfc\x1d", b"\x1f\x9d")


def draw_packet(ch, read_size=None, allow_max=True, cap=None):
    # the two all-same-bit headers are legal packets: 7 zero bytes (version 0, APID 0, CONTINUATION, count 0, one data
    # byte) and, when maximum-size packets are allowed, FF FF FF FF FF FF + 65536 data bytes
    special = ch.weighted([(58, None), (1, "zeros"), (1, "ones"), (2, "magic")], "special_pkt")
    if special == "zeros":
        return bytes(7)
    if special == "magic":
        # header values that spell the magic number of a file format (gzip, bzip2, xz, zstd, zip, lz4, zlib, byte-order
        # marks, a text line): legal packets that content sniffing would mistake for something else
        m = ch.pick(MAGICS, "magic")
        fill = ch.draw(1 << 16, "magic_fill")
        hdr4 = (m + fill.to_bytes(2, "big") + b"\x00\x00")[:4] if len(m) < 4 else m[:4]
        n = draw_data_len(ch, read_size, allow_max, cap)
        return hdr4 + (n - 1).to_bytes(2, "big") + payload(ch.draw(1 << 32, "payload"), n)
    if special == "ones" and allow_max and cap is None:
        return b"\xff" * 6 + payload(ch.draw(1 << 16, "ones_payload"), 65536)
    hdr = draw_header(ch)
    n = draw_data_len(ch, read_size, allow_max, cap)
    sub = ch.draw(1 << 32, "payload")
    return build_packet(*hdr, payload(sub, n))


# ---------------------------------------------------------------------------------------
# Reference framer (the oracle for truncated / arbitrary byte strings)
# ---------------------------------------------------------------------------------------

def reference_frame(stream: bytes, k: int = 0):
    """Walk the byte string: at offset o need k+6 bytes; L = be16 at o+k+4, +1; need k+6+L.
    Emit stream[o+k : o+k+6+L]; stop at the first thing that does not fit.
    Returns (packets, consumed_bytes)."""
    out = []
    o = 0
    n = len(stream)
    while True:
        if n - o < k + 6:
            break
        length = int.from_bytes(stream[o + k + 4:o + k + 6], "big") + 1
        end = o + k + 6 + length
        if end > n:
            break
        out.append(stream[o + k:end])
        o = end
    return out, o


# ---------------------------------------------------------------------------------------
# Swarm knob: the 20 MB buffer-trim threshold
# ---------------------------------------------------------------------------------------
TRIM_CONST = 20_000_000


def clone_with_trim_threshold(packets_mod, threshold, name="ccsds_generator"):
    """Return a clone of the module-level function ``name`` of packets.py whose literal 20_000_000 is ``threshold``.
    None if the constant is not present in its code object: the caller then simply runs the genuine function."""
    fn = getattr(packets_mod, name)
    fn = getattr(fn, "__verif_orig__", fn)
    found = [False]

    def rewrite(code):
        # the literal may sit in the function itself or in a helper nested inside it (closures are code constants)
        consts = []
        for c in code.co_consts:
            if type(c) is int and c == TRIM_CONST:
                consts.append(threshold)
                found[0] = True
            elif isinstance(c, types.CodeType):
                consts.append(rewrite(c))
            else:
                consts.append(c)
        return code.replace(co_consts=tuple(consts))
    new_code = rewrite(fn.__code__)
    if not found[0]:
        return None
    new = types.FunctionType(new_code, fn.__globals__, fn.__name__,
                             fn.__defaults__, fn.__closure__)
    new.__kwdefaults__ = fn.__kwdefaults__
    new.__verif_orig__ = fn
    return new


def library_modules(mod):
    """``mod`` itself and, if it is (or has become) a package, its loaded submodules."""
    import sys as _sys
    pre = mod.__name__ + "."
    return [mod] + [m for n, m in sorted(_sys.modules.items()) if n.startswith(pre) and isinstance(m, types.ModuleType)]


class TrimKnob:
    """Context manager installing clones of the functions that contain the trim threshold (and restoring them). Works on
    packets.py as a module and as a package: the constant is looked for in every loaded submodule, and re-exported
    aliases of a cloned function (``from ._framing import ccsds_generator`` in ``__init__``) are redirected as well."""

    def __init__(self, packets_mod, threshold):
        self.mod = packets_mod
        self.threshold = threshold
        self.active = False
        self.restore = []            # (module dict, name, original value)

    def __enter__(self):
        if self.threshold is None:
            return self
        mods = library_modules(self.mod)
        replaced = {}                # id(original function) -> clone
        # (a) the literal inside the code object of the framer, or of any other function defined at the top level of a
        #     module (helpers the framer was split into) -> clones with the constant replaced, installed under their names
        for m in mods:
            for name, obj in list(m.__dict__.items()):
                if isinstance(getattr(obj, "__verif_orig__", obj), types.FunctionType) and \
                        getattr(obj, "__module__", None) == m.__name__:
                    clone = clone_with_trim_threshold(m, self.threshold, name)
                    if clone is not None:
                        self.restore.append((m.__dict__, name, obj))
                        m.__dict__[name] = clone
                        replaced[id(obj)] = clone
                        self.active = True
        # aliases of a cloned function in the other modules of the package (re-exports)
        for m in mods:
            for name, obj in list(m.__dict__.items()):
                if id(obj) in replaced and m.__dict__[name] is obj:
                    self.restore.append((m.__dict__, name, obj))
                    m.__dict__[name] = replaced[id(obj)]
        # (b) the same value kept as a module-level named constant -> set it for the duration of the run
        for m in mods:
            for name, val in list(m.__dict__.items()):
                if type(val) is int and val == TRIM_CONST and not name.startswith("__"):
                    self.restore.append((m.__dict__, name, val))
                    m.__dict__[name] = self.threshold
                    self.active = True
        return self

    def __exit__(self, *exc):
        for d, name, obj in reversed(self.restore):
            d[name] = obj
        self.restore = []
        self.active = False
        return False


# ---------------------------------------------------------------------------------------
# Minimal XTCE document: the seven CCSDS header fields in one concrete root container.
# Every complete packet (>= 7 bytes) parses without an exception under it.
# ---------------------------------------------------------------------------------------
_HDR_FIELDS = (("VERSION", 3), ("TYPE", 1), ("SEC_HDR_FLG", 1), ("PKT_APID", 11), ("SEQ_FLGS", 2),
               ("SRC_SEQ_CTR", 14), ("PKT_LEN", 16))


def header_only_xtce() -> bytes:
    types_ = "".join(
        f'<xtce:IntegerParameterType name="{n}_Type" signed="false"><xtce:IntegerDataEncoding sizeInBits="{b}" '
        f'encoding="unsigned"/></xtce:IntegerParameterType>' for n, b in _HDR_FIELDS)
    params = "".join(f'<xtce:Parameter name="{n}" parameterTypeRef="{n}_Type"/>' for n, _ in _HDR_FIELDS)
    entries = "".join(f'<xtce:ParameterRefEntry parameterRef="{n}"/>' for n, _ in _HDR_FIELDS)
    return (f'<?xml version="1.0" encoding="UTF-8"?><xtce:SpaceSystem name="HDR" '
            f'xmlns:xtce="http://www.omg.org/spec/XTCE/20180204"><xtce:Header date="2026-01-01T00:00:00" '
            f'version="1.0" validationStatus="Working"/><xtce:TelemetryMetaData><xtce:ParameterTypeSet>{types_}'
            f'</xtce:ParameterTypeSet><xtce:ParameterSet>{params}</xtce:ParameterSet><xtce:ContainerSet>'
            f'<xtce:SequenceContainer name="CCSDSPacket"><xtce:EntryList>{entries}</xtce:EntryList>'
            f'</xtce:SequenceContainer></xtce:ContainerSet></xtce:TelemetryMetaData></xtce:SpaceSystem>').encode()


def load_header_only_definition():
    import io as _io
    from space_packet_parser.xtce.definitions import XtcePacketDefinition
    return XtcePacketDefinition.from_xtce(_io.BytesIO(header_only_xtce()))
