"""Pristine child processes: run a function in a fork of the current process and get its pickled result back.

Used for baselines and expectations that must be computed from process-wide state nobody has touched yet. The child is
always killed and reaped (also when the parent is interrupted by the wall-clock backstop), and has its own deadline.
"""
import os
import pickle
import select
import signal
import time

from .kernel import HarnessBug


class ChildTimeout(BaseException):
    """The child did not finish in time (the library hung inside it)."""


def in_pristine_child(fn, wall_s=120, raise_errors=True):
    """Run fn() in a forked child and return its (pickled) result. The parent has not parsed anything yet when this is
    called, so the child starts from pristine process-wide state; whatever the child's parsing leaves behind dies with it."""
    r, wfd = os.pipe()
    pid = os.fork()
    if pid == 0:
        os.close(r)
        try:
            try:
                res = ("ok", fn())
            except BaseException as e:      # noqa: BLE001
                res = ("error", f"{type(e).__name__}: {e}")
            with os.fdopen(wfd, "wb") as f:
                pickle.dump(res, f)
        finally:
            os._exit(0)
    os.close(wfd)
    chunks = []
    try:
        deadline = time.monotonic() + wall_s
        while True:
            left = deadline - time.monotonic()
            if left <= 0:
                raise ChildTimeout("child exceeded its wall cap")
            rl, _, _ = select.select([r], [], [], min(left, 2.0))
            if rl:
                b = os.read(r, 1 << 20)
                if not b:
                    break
                chunks.append(b)
    finally:
        os.close(r)
        try:
            os.kill(pid, signal.SIGKILL)
        except ProcessLookupError:
            pass
        os.waitpid(pid, 0)
    if not chunks:
        raise HarnessBug("child died without a result")
    res = pickle.loads(b"".join(chunks))
    if res[0] != "ok":
        if raise_errors:
            raise HarnessBug("child failed: " + res[1])
        return res
    return res[1] if raise_errors else res
