"""Pristine child processes: run a function in a fork of the current process and get its pickled result back.

Used for baselines and expectations that must be computed from process-wide state nobody has touched yet. The child is
always killed and reaped (also when the parent is interrupted by a backstop), and has its own backstops: CPU seconds
(wall_s / 2, the verdict that does not depend on machine load) and wall-clock time (wall_s * 4, for a blocked child).
"""
import os
import pickle
import select
import signal
import time

from .kernel import HarnessBug


class ChildTimeout(BaseException):
    """The child did not finish in time (the library hung inside it)."""


def in_pristine_child(fn, wall_s=120, raise_errors=True):
    """Run fn() in a forked child and return its (pickled) result. The parent has not parsed anything yet when this is
    called, so the child starts from pristine process-wide state; whatever the child's parsing leaves behind dies with it."""
    r, wfd = os.pipe()
    pid = os.fork()
    if pid == 0:
        os.close(r)
        try:
            # CPU-time backstop inside the child (timers are not inherited across fork): default action of SIGPROF ends it
            signal.signal(signal.SIGPROF, signal.SIG_DFL)
            signal.signal(signal.SIGALRM, signal.SIG_DFL)
            signal.setitimer(signal.ITIMER_REAL, 0)
            signal.setitimer(signal.ITIMER_PROF, wall_s / 2.0)
            try:
                res = ("ok", fn())
            except BaseException as e:      # noqa: BLE001
                res = ("error", f"{type(e).__name__}: {e}")
            with os.fdopen(wfd, "wb") as f:
                pickle.dump(res, f)
        finally:
            os._exit(0)
    os.close(wfd)
    chunks = []
    status = None
    eof = False
    try:
        deadline = time.monotonic() + wall_s * 4
        while True:
            left = deadline - time.monotonic()
            if left <= 0:
                raise ChildTimeout("child exceeded its wall cap")
            rl, _, _ = select.select([r], [], [], min(left, 2.0))
            if rl:
                b = os.read(r, 1 << 20)
                if not b:
                    eof = True
                    break
                chunks.append(b)
    finally:
        os.close(r)
        # a child that ended by itself (result written, or CPU backstop) is reaped as it is; anything else is killed
        done, status = os.waitpid(pid, os.WNOHANG)
        if done == 0:
            t_end = time.monotonic() + (2.0 if eof else 0.0)
            while done == 0 and time.monotonic() < t_end:
                time.sleep(0.002)
                done, status = os.waitpid(pid, os.WNOHANG)
            if done == 0:
                try:
                    os.kill(pid, signal.SIGKILL)
                except ProcessLookupError:
                    pass
                _, status = os.waitpid(pid, 0)
    if not chunks:
        if status is not None and os.WIFSIGNALED(status) and os.WTERMSIG(status) == signal.SIGPROF:
            raise ChildTimeout("child exceeded its CPU cap")
        raise HarnessBug("child died without a result")
    res = pickle.loads(b"".join(chunks))
    if res[0] != "ok":
        if raise_errors:
            raise HarnessBug("child failed: " + res[1])
        return res
    return res[1] if raise_errors else res
