"""Entry point: python /verif/sim/main.py <ID> quick|thorough | --replay <file> | --digests N"""
import importlib
import os
import sys

VERIF_DIR = os.path.dirname(os.path.dirname(os.path.abspath(__file__)))
# Run as a script (never ``python -m``) so no module is loaded twice.
if sys.path and os.path.abspath(sys.path[0]) == os.path.join(VERIF_DIR, "sim"):
    sys.path.pop(0)
sys.path.insert(0, VERIF_DIR)
sys.dont_write_bytecode = True

CHECKS = {
    "C02": "checks.c02_framing",
    "C10": "checks.c10_eof",
    "C11": "checks.c11_isolation",
    "C12": "checks.c12_segments",
    "C16": "checks.c16_loads",
    "C19": "checks.c19_cli",
}


def main(argv):
    if not argv or argv[0] not in CHECKS:
        print("usage: check <" + "|".join(CHECKS) + "> [quick|thorough] | --replay <file>", file=sys.stderr)
        return 2
    from sim import runner
    try:
        mod = importlib.import_module(CHECKS[argv[0]])
    except Exception:
        import traceback
        traceback.print_exc()
        print("HARNESS-ERROR cannot import check / library", file=sys.stderr)
        return 2
    try:
        return runner.main_check(mod, argv[1:])
    except Exception:
        import traceback
        traceback.print_exc()
        print("HARNESS-ERROR", file=sys.stderr)
        return 2


if __name__ == "__main__":
    sys.exit(main(sys.argv[1:]))
