"""A bounded family of XTCE documents, their renderings, packets for them, and neutral
fingerprints of what the library makes of them.

* ``draw_doc(ch)``            abstract document (types, parameters, containers, APID branches)
* ``render(doc, rd)``         XML bytes in any namespace convention, with comments / whitespace at
                              element-content positions only (never inside text-bearing elements)
* ``draw_rendering(ch)``      a rendering descriptor; ``CANONICAL`` is prefix 'xtce', compact, no comments
* ``encode_packet(...)``      bytes of a packet that a given leaf of the document describes (an *encoder*
                              only: no check ever decodes with anything but the library)
* ``fingerprint(defn)``       reflective walk of the loaded definition into nested tuples
* ``canon_item(item)``        neutral form of what a generator yields

Nothing in here draws from anything but the ``Choices`` object it is given.
"""
import struct

from .choices import payload

XTCE_URI = "http://www.omg.org/spec/XTCE/20180204"
HDR_FIELDS = (("VERSION", 3), ("TYPE", 1), ("SEC_HDR_FLG", 1), ("PKT_APID", 11), ("SEQ_FLGS", 2),
              ("SRC_SEQ_CTR", 14), ("PKT_LEN", 16))
TEXT_TAGS = {"FixedValue", "Unit", "LongDescription", "TerminationChar", "ComparisonOperator", "Value", "Epoch"}


def E(tag, attrs=None, children=None, text=None):
    return (tag, dict(attrs or {}), list(children) if children is not None else None, text)


# ---------------------------------------------------------------------------------------------
# abstract document
# ---------------------------------------------------------------------------------------------

class Doc:
    def __init__(self):
        self.name = "DOC"
        self.types = []          # (name, xml node, kind dict)
        self.params = []         # (name, type name, short, long)
        self.containers = []     # dicts: name, abstract, base, criteria (xml node or None), entries, short, long
        self.leaves = []         # dicts: name, chain [container names root..leaf], apid, fixed {param: raw value}
        self.unknown_apids = []  # APIDs no branch matches (abstract dead end)
        self.ambiguous_apid = None
        self.kinds = {}          # type name -> kind dict
        self.ptype = {}          # param name -> type name
        self.features = set()
        self.dead_sub = None
        self.cont_order = "as_is"
        self.foreign_note = None
        self.alt_root = None
        self.root_abstract = True


def _cmp(ref, value, op=None, raw=True):
    a = {"parameterRef": ref, "value": str(value)}
    if op:
        a["comparisonOperator"] = op
    if raw:
        a["useCalibratedValue"] = "false"
    return E("Comparison", a, [])


def _cond(ref, op, value, raw=True):
    a = {"parameterRef": ref}
    if raw:
        a["useCalibratedValue"] = "false"
    return E("Condition", {}, [E("ParameterInstanceRef", a, []), E("ComparisonOperator", text=op), E("Value", text=str(value))])


def criteria_node(form, ref, value, alt=None):
    """RestrictionCriteria child selecting ``ref == value`` (raw), in one of the supported forms."""
    if form == 0:
        return _cmp(ref, value)
    if form == 1:
        return E("ComparisonList", {}, [_cmp(ref, value, "geq"), _cmp(ref, value, "<=")])
    if form == 2:
        return E("BooleanExpression", {}, [_cond(ref, "==", value)])
    if form == 3:
        return E("BooleanExpression", {}, [E("ANDedConditions", {}, [_cond(ref, ">=", value), _cond(ref, "leq", value)])])
    if form == 4:
        return E("BooleanExpression", {}, [E("ORedConditions", {}, [_cond(ref, "==", value),
                                                                    _cond(ref, "eq", value if alt is None else alt)])])
    if form == 6:
        # a Condition comparing two parameters (VERSION and TYPE are both 0 in every packet the encoder builds)
        two = E("Condition", {}, [E("ParameterInstanceRef", {"parameterRef": "VERSION", "useCalibratedValue": "false"}, []),
                                  E("ComparisonOperator", text="=="),
                                  E("ParameterInstanceRef", {"parameterRef": "TYPE", "useCalibratedValue": "false"}, [])])
        return E("BooleanExpression", {}, [E("ANDedConditions", {}, [_cond(ref, "==", value), two])])
    # nested: OR( AND(>=, <=), == alt )
    return E("BooleanExpression", {}, [E("ORedConditions", {}, [
        _cond(ref, "==", value if alt is None else alt),
        E("ANDedConditions", {}, [_cond(ref, "geq", value), _cond(ref, "<=", value)])])])


def _poly(ch, label):
    n = 1 + ch.draw(3, label + "_nterms")
    terms = []
    for e in range(n):
        c = ch.pick((1.0, 0.5, -2.0, 0.0, 3.25, 1e-3), label + "_coef")
        terms.append(E("Term", {"coefficient": repr(c), "exponent": str(e)}, []))
    # the order of the Terms is the document's business (XTCE does not prescribe one): descending or rotated as well
    if n > 1:
        order = ch.weighted([(2, "asc"), (1, "desc"), (1, "rot")], label + "_term_order")
        if order == "desc":
            terms.reverse()
        elif order == "rot":
            terms = terms[1:] + terms[:1]
    return E("PolynomialCalibrator", {}, terms)


def _spline(ch, label):
    n = 2 + ch.draw(3, label + "_npts")
    pts = []
    x = ch.pick((0, -5, 10), label + "_x0")
    for i in range(n):
        y = ch.pick((0.0, 1.5, -3.0, 100.0), label + "_y")
        pts.append(E("SplinePoint", {"raw": str(x), "calibrated": repr(y)}, []))
        x += ch.pick((1, 10, 100), label + "_dx")
    a = {}
    if ch.chance(1, 2, label + "_order"):
        a["order"] = str(ch.draw(2, label + "_ordv"))
    # mostly extrapolating: a non-extrapolating spline makes the decoder raise for out-of-range raw
    # values, which ends a generator (outside every claimed property); such packets are weeded out
    # at plan time, so keep them rare
    ex = ch.weighted([(12, "true"), (2, "True"), (1, None), (1, "false")], label + "_extrap")
    if ex is not None:
        a["extrapolate"] = ex
    return E("SplineCalibrator", a, pts)


def _calibrator(ch, label):
    return _poly(ch, label) if ch.draw(2, label + "_kind") == 0 else _spline(ch, label)


def _context_cal_list(ch, label, ref_candidates, doc):
    """ContextCalibratorList with 1-3 ContextCalibrators; match criteria in each supported form.
    ``ref_candidates``: names of earlier unsigned-int parameters usable as context."""
    cals = []
    for i in range(1 + ch.draw(3, label + "_ncc")):
        ref = ch.pick(ref_candidates, label + "_ref")
        form = ch.draw(3, label + "_mform")
        v = ch.draw(4, label + "_mval")
        if form == 0:
            match = _cmp(ref, v)
        elif form == 1:
            match = E("ComparisonList", {}, [_cmp(ref, v, "geq"), _cmp(ref, v + 1, "leq")])
        else:
            match = E("BooleanExpression", {}, [_cond(ref, "!=", v)])
        cals.append(E("ContextCalibrator", {}, [E("ContextMatch", {}, [match]),
                                                E("Calibrator", {}, [_calibrator(ch, label + "_cc")])]))
    doc.features.add("context_calibrator")
    return E("ContextCalibratorList", {}, cals)


def _int_encoding(bits, signed=None, le=False, extra=None):
    a = {"sizeInBits": str(bits)}
    if signed is not None:
        a["encoding"] = signed
    if le:
        a["byteOrder"] = "leastSignificantByteFirst"
    return E("IntegerDataEncoding", a, list(extra or []))


def draw_type(ch, doc, idx, int_refs, force_ref=False):
    """Draw one parameter type. ``int_refs``: names of earlier small unsigned int parameters of the same
    container that may serve as length / context references. Returns (type name, kind dict)."""
    name = f"T{idx}"
    choices = [(5, "uint"), (2, "sint"), (2, "float"), (2, "enum"), (1, "bool"), (2, "binfixed"), (2, "strfixed"),
               (1, "abstime"), (1, "reltime"), (1, "enumf"), (1, "enums"), (1, "intf"), (1, "floati"), (1, "boolf")]
    if int_refs:
        choices += [(3, "bindyn"), (2, "strdyn"), (2, "strlookup")]
    kind = ch.weighted(choices, "tkind")
    if force_ref:
        kind = "uint"
    unit = ch.pick((None, "V", "deg C", "m/s"), "unit")
    unit_nodes = [E("UnitSet", {}, [E("Unit", text=unit)])] if unit else []
    k = {"kind": kind}
    if kind in ("uint", "sint"):
        bits = ch.pick((8, 16, 3, 1, 12, 32, 5, 24, 7, 64), "bits")
        if force_ref:
            bits = ch.pick((8, 3, 5), "refbits")
        le = bits % 8 == 0 and bits > 8 and ch.chance(1, 4, "le")
        extra = []
        if not force_ref and ch.chance(1, 3, "defcal"):
            extra.append(E("DefaultCalibrator", {}, [_calibrator(ch, "dc")]))
            doc.features.add("default_calibrator")
        if int_refs and ch.chance(1, 3, "ctxcal"):
            extra.append(_context_cal_list(ch, "cc", int_refs, doc))
        enc = _int_encoding(bits, None if (kind == "uint" and ch.chance(1, 2, "encattr")) else
                            ("unsigned" if kind == "uint" else ch.pick(("twosComplement", "signed"), "senc")), le, extra)
        node = E("IntegerParameterType", {"name": name, "signed": "false" if kind == "uint" else "true"}, unit_nodes + [enc])
        k.update(bits=bits, calibrated=bool(extra))
    elif kind == "float":
        enc_name = ch.pick(("IEEE754", "IEEE754_1985", "MILSTD_1750A"), "fenc")
        bits = 32 if enc_name == "MILSTD_1750A" else ch.pick((32, 64, 16), "fbits")
        a = {"sizeInBits": str(bits), "encoding": enc_name}
        if ch.chance(1, 4, "fle"):
            a["byteOrder"] = "leastSignificantByteFirst"
        extra = []
        if ch.chance(1, 4, "fdefcal"):
            extra.append(E("DefaultCalibrator", {}, [_calibrator(ch, "fdc")]))
        if int_refs and ch.chance(1, 4, "fctxcal"):
            extra.append(_context_cal_list(ch, "fcc", int_refs, doc))
        node = E("FloatParameterType", {"name": name}, unit_nodes + [E("FloatDataEncoding", a, extra)])
        k.update(bits=bits)
    elif kind == "enum":
        bits = ch.pick((2, 1, 3), "ebits")
        labels = [E("Enumeration", {"value": str(v), "label": f"L{v}_{idx}"}, []) for v in range(1 << bits)]
        if ch.chance(1, 3, "enum_dup_label"):
            # XTCE allows several raw values to carry the same label (anything keyed by the label confuses them)
            labels[-1][1]["label"] = labels[0][1]["label"]
            doc.features.add("enum_shared_label")
        node = E("EnumeratedParameterType", {"name": name}, unit_nodes + [_int_encoding(bits, "unsigned"),
                                                                           E("EnumerationList", {}, labels)])
        k.update(bits=bits)
        doc.features.add("enum")
    elif kind == "enumf":
        # enumeration over a float-encoded raw value (keys are parsed with float())
        labels = [E("Enumeration", {"value": v, "label": f"F{j}_{idx}"}, []) for j, v in enumerate(("0.0", "1.0", "2.5"))]
        node = E("EnumeratedParameterType", {"name": name}, unit_nodes + [
            E("FloatDataEncoding", {"sizeInBits": "32", "encoding": "IEEE754"}, []), E("EnumerationList", {}, labels)])
        k.update(kind="enumf", bits=32)
        doc.features.add("enum_float")
    elif kind == "enums":
        # enumeration over a string-encoded raw value (keys are the encoded bytes)
        labels = [E("Enumeration", {"value": v, "label": f"S{j}_{idx}"}, []) for j, v in enumerate(("A", "B", "Z"))]
        node = E("EnumeratedParameterType", {"name": name}, unit_nodes + [
            E("StringDataEncoding", {"encoding": "US-ASCII"}, [E("SizeInBits", {}, [E("Fixed", {}, [E("FixedValue", text="8")])])]),
            E("EnumerationList", {}, labels)])
        k.update(kind="enums", bits=8)
        doc.features.add("enum_string")
    elif kind == "intf":
        # an Integer parameter type carried by a float encoding, and (floati) a Float type carried by an integer encoding
        node = E("IntegerParameterType", {"name": name}, unit_nodes + [E("FloatDataEncoding", {"sizeInBits": "32"}, [])])
        k.update(kind="float", bits=32)
    elif kind == "floati":
        bits = ch.pick((16, 8, 12), "fibits")
        node = E("FloatParameterType", {"name": name}, unit_nodes + [_int_encoding(bits, ch.pick(("unsigned", "twosComplement"), "fienc"))])
        k.update(kind="uint", bits=bits, calibrated=True)
    elif kind == "boolf":
        node = E("BooleanParameterType", {"name": name}, unit_nodes + [E("FloatDataEncoding", {"sizeInBits": "32"}, [])])
        k.update(kind="float", bits=32)
    elif kind == "bool":
        bits = ch.pick((1, 8), "bbits")
        node = E("BooleanParameterType", {"name": name}, unit_nodes + [_int_encoding(bits, "unsigned")])
        k.update(bits=bits)
    elif kind == "binfixed":
        bits = ch.pick((8, 16, 12, 3, 40), "binbits")
        node = E("BinaryParameterType", {"name": name}, unit_nodes + [
            E("BinaryDataEncoding", {}, [E("SizeInBits", {}, [E("FixedValue", text=str(bits))])])])
        k.update(bits=bits)
    elif kind == "bindyn":
        ref = ch.pick(int_refs, "binref")
        slope, icpt = ch.pick(((8, 0), (8, 8), (24, 8), (16, 0), (1, 0)), "binadj")
        dv = [E("ParameterInstanceRef", {"parameterRef": ref, "useCalibratedValue": "false"}, [])]
        if (slope, icpt) != (1, 0):           # (1, 0): no LinearAdjustment element at all, the raw value is the size in bits
            dv.append(E("LinearAdjustment", {"slope": str(slope), "intercept": str(icpt)}, []))
        node = E("BinaryParameterType", {"name": name}, unit_nodes + [
            E("BinaryDataEncoding", {}, [E("SizeInBits", {}, [E("DynamicValue", {}, dv)])])])
        k.update(ref=ref, slope=slope, icpt=icpt)
        doc.features.add("dynamic_length")
    elif kind == "strlookup":
        ref = ch.pick(int_refs, "lkref")
        sizes = [ch.pick((8, 16, 24), "lksize") for _ in range(3)]
        lookups = []
        for v, sz in enumerate(sizes):
            if v == 2:
                crit = E("ComparisonList", {}, [_cmp(ref, 2, "geq"), _cmp(ref, 1000, "lt")])
            else:
                crit = _cmp(ref, v)
            lookups.append(E("DiscreteLookup", {"value": str(sz)}, [crit]))
        node = E("StringParameterType", {"name": name}, unit_nodes + [
            E("StringDataEncoding", {"encoding": "ISO-8859-1"}, [E("Variable", {"maxSizeInBits": "64"},
                                                                   [E("DiscreteLookupList", {}, lookups)])])])
        k.update(ref=ref, sizes=sizes)
        doc.features.add("discrete_lookup")
    elif kind == "strfixed":
        nbytes = ch.pick((4, 1, 8, 3), "strbytes")
        mode = ch.pick(("raw", "term", "lead"), "strmode")
        size_children = [E("Fixed", {}, [E("FixedValue", text=str(nbytes * 8))])]
        if mode == "term":
            size_children.append(E("TerminationChar", text="00"))
        elif mode == "lead":
            size_children.append(E("LeadingSize", {"sizeInBitsOfSizeTag": "8"}, []))
        enc = ch.pick(("ISO-8859-1", "US-ASCII", "UTF-8", "UTF-8", "UTF-16", "UTF-16BE", "UTF-16LE"), "strenc")
        enc_attrs = {"encoding": enc}
        if enc.startswith("UTF-16"):
            # two-byte characters: even sizes, no termination character (a two-byte needle may match across characters)
            nbytes = ch.pick((4, 2, 8), "str16bytes")
            if mode == "term":
                mode = "raw"
            size_children = [E("Fixed", {}, [E("FixedValue", text=str(nbytes * 8))])]
            if mode == "lead":
                size_children.append(E("LeadingSize", {"sizeInBitsOfSizeTag": "8"}, []))
            if enc == "UTF-16":
                enc_attrs["byteOrder"] = ch.pick(("leastSignificantByteFirst", "mostSignificantByteFirst"), "str16order")
            doc.features.add("utf16_string")
        node = E("StringParameterType", {"name": name}, unit_nodes + [
            E("StringDataEncoding", enc_attrs, [E("SizeInBits", {}, size_children)])])
        k.update(nbytes=nbytes, mode=mode, enc=enc)
    elif kind == "strdyn":
        ref = ch.pick(int_refs, "strref")
        dv = [E("ParameterInstanceRef", {"parameterRef": ref, "useCalibratedValue": "false"}, []),
              E("LinearAdjustment", {"slope": "8", "intercept": "8"}, [])]
        smode = ch.pick(("raw", "term", "lead"), "strdyn_mode")
        var_children = [E("DynamicValue", {}, dv)]
        if smode == "term":
            var_children.append(E("TerminationChar", text="00"))
        elif smode == "lead":
            var_children.append(E("LeadingSize", {"sizeInBitsOfSizeTag": "8"}, []))
        node = E("StringParameterType", {"name": name}, unit_nodes + [
            E("StringDataEncoding", {"encoding": "ISO-8859-1"}, [E("Variable", {"maxSizeInBits": "2048"}, var_children)])])
        k.update(ref=ref, mode=smode)
        doc.features.add("dynamic_length")
    else:  # abstime / reltime
        tag = "AbsoluteTimeParameterType" if kind == "abstime" else "RelativeTimeParameterType"
        ea = {"units": ch.pick(("seconds", "s", "ms"), "tunits")}
        if ch.chance(1, 2, "tscale"):
            ea["scale"] = ch.pick(("1E-6", "0.001", "2"), "tscalev")
        if ch.chance(1, 2, "toffset"):
            ea["offset"] = ch.pick(("0", "100.5", "-3"), "toffv")
        bits = ch.pick((32, 16, 8), "tbits")
        if ch.chance(1, 4, "tfloat"):
            bits = ch.pick((32, 64), "tfbits")
            children = [E("Encoding", ea, [E("FloatDataEncoding", {"sizeInBits": str(bits)}, [])])]
        else:
            children = [E("Encoding", ea, [_int_encoding(bits, "unsigned")])]
        tref = ch.pick((None, "epoch", "offset"), "tref")
        if tref == "epoch":
            children.append(E("ReferenceTime", {}, [E("Epoch", text=ch.pick(("TAI", "2009-10-10T12:00:00-05:00", "GPS"),
                                                                              "epoch"))]))
        elif tref == "offset":
            children.append(E("ReferenceTime", {}, [E("OffsetFrom", {"parameterRef": "SRC_SEQ_CTR"}, [])]))
        node = E(tag, {"name": name}, children)
        k.update(bits=bits, kind="uint", timekind=kind)
        doc.features.add("time")
    doc.types.append((name, node, k))
    doc.kinds[name] = k
    return name, k


def draw_doc(ch, tag="D"):
    """Draw an abstract document: abstract root with the CCSDS header, 1-4 APID branches (some two-level),
    optionally an ambiguous pair, shared nested container."""
    doc = Doc()
    doc.name = f"{tag}_{ch.draw(1000, 'docname')}"
    for n, b in HDR_FIELDS:
        doc.types.append((f"{n}_Type", E("IntegerParameterType", {"name": f"{n}_Type", "signed": "false"},
                                         [_int_encoding(b, "unsigned")]), {"kind": "uint", "bits": b}))
        doc.kinds[f"{n}_Type"] = {"kind": "uint", "bits": b}
        doc.params.append((n, f"{n}_Type", None, None))
        doc.ptype[n] = f"{n}_Type"
    root_abstract = not ch.chance(1, 8, "root_concrete")
    doc.containers.append(dict(name="CCSDSPacket", abstract=root_abstract, base=None, criteria=None,
                               entries=[("p", n) for n, _ in HDR_FIELDS],
                               short=None, long="CCSDS header" if ch.chance(1, 2, "rootlong") else None))
    doc.root_abstract = root_abstract
    tcount = [0]
    pcount = [0]
    # container names: XTCE's NameType forbids only '.', '/', ':', '[', ']' and space; anything else is a legal name
    style = ch.weighted([(5, "plain"), (1, "paren"), (1, "dash"), (1, "dollar"), (1, "unicode"), (1, "plus")], "name_style")
    deco = {"plain": "", "paren": "(1)", "dash": "-a", "dollar": "$", "unicode": "é", "plus": "+x"}[style]
    if deco:
        doc.features.add("decorated_container_names")

    def new_params(prefix, nmax):
        """Draw 1..nmax parameters for one container; returns entries list."""
        entries = []
        int_refs = []
        force_first = ch.chance(1, 2, "ref_first")
        for j in range(1 + ch.draw(nmax, "nparams")):
            tname, k = draw_type(ch, doc, tcount[0], int_refs, force_ref=(force_first and j == 0))
            tcount[0] += 1
            pname = f"{prefix}_P{pcount[0]}"
            pcount[0] += 1
            short = ch.pick((None, "short text", "ünïcode ✓"), "pshort")
            long_ = ch.pick((None, "A longer description."), "plong")
            doc.params.append((pname, tname, short, long_))
            doc.ptype[pname] = tname
            entries.append(("p", pname))
            if k["kind"] == "uint" and not k.get("calibrated") and not k.get("timekind") and k["bits"] in (3, 5, 7, 8):
                int_refs.append(pname)
        return entries

    shared = None
    if ch.chance(1, 3, "shared"):
        ents = new_params("SH", 2)
        shared = "SharedBlock" + deco
        doc.containers.append(dict(name=shared, abstract=False, base=None, criteria=None, entries=ents,
                                   short="shared block", long=None))
        doc.features.add("nested_container")

    n_branches = 1 + ch.draw(4, "nbranches")
    apids = [5, 0, 2047, 1024][:n_branches]
    for bi, apid in enumerate(apids):
        form = ch.draw(7, "cform")
        alt = 900 + bi if form in (4, 5) else None
        two_level = ch.chance(1, 3, "two_level")
        cname = f"BR{bi}{deco}"
        ents = new_params(cname, 6 if not two_level else 2)
        if shared and ch.chance(1, 2, "use_shared"):
            ents.insert(ch.draw(len(ents) + 1, "shared_pos"), ("c", shared))
        crit = criteria_node(form, "PKT_APID", apid, alt)
        if not two_level:
            doc.containers.append(dict(name=cname, abstract=False, base="CCSDSPacket", criteria=crit, entries=ents,
                                       short=ch.pick((None, "branch"), "cshort"), long=None))
            doc.leaves.append(dict(name=cname, chain=["CCSDSPacket", cname], apid=apid, alt_apid=alt, fixed={}))
        else:
            sub = f"{cname}_SUB"
            doc.types.append((f"{sub}_Type", E("IntegerParameterType", {"name": f"{sub}_Type"},
                                               [_int_encoding(8, "unsigned")]), {"kind": "uint", "bits": 8}))
            doc.kinds[f"{sub}_Type"] = {"kind": "uint", "bits": 8}
            doc.params.append((sub, f"{sub}_Type", None, None))
            doc.ptype[sub] = f"{sub}_Type"
            ents.append(("p", sub))
            doc.containers.append(dict(name=cname, abstract=True, base="CCSDSPacket", criteria=crit, entries=ents,
                                       short=None, long="two-level branch"))
            doc.features.add("two_level")
            for si in range(1 + ch.draw(2, "nsubs")):
                sname = f"{cname}_S{si}"
                sents = new_params(sname, 3)
                doc.containers.append(dict(name=sname, abstract=False, base=cname,
                                           criteria=criteria_node(ch.draw(4, "sform"), sub, si + 1), entries=sents,
                                           short=None, long=None))
                doc.leaves.append(dict(name=sname, chain=["CCSDSPacket", cname, sname], apid=apid, alt_apid=alt,
                                       fixed={sub: si + 1}))
            doc.dead_sub = dict(chain=["CCSDSPacket", cname], apid=apid, fixed={sub: 200})
    if ch.chance(1, 4, "ambiguous"):
        # two concrete children that both match one APID -> "multiple valid inheritors"
        for j in range(2):
            cname = f"AMB{j}{deco}"
            ents = new_params(cname, 2)
            doc.containers.append(dict(name=cname, abstract=False, base="CCSDSPacket",
                                       criteria=criteria_node(ch.draw(3, "aform"), "PKT_APID", 77), entries=ents,
                                       short=None, long=None))
        doc.ambiguous_apid = 77
        doc.features.add("ambiguous")
    doc.alt_root = None
    if ch.chance(1, 2, "alt_root"):
        # a second header-bearing container that a caller may name as root_container_name: header + one byte, no inheritors
        doc.types.append(("ALT_P_Type", E("IntegerParameterType", {"name": "ALT_P_Type"}, [_int_encoding(8, "unsigned")]),
                          {"kind": "uint", "bits": 8}))
        doc.kinds["ALT_P_Type"] = {"kind": "uint", "bits": 8}
        doc.params.append(("ALT_P", "ALT_P_Type", None, None))
        doc.ptype["ALT_P"] = "ALT_P_Type"
        doc.containers.append(dict(name="AltRoot" + deco, abstract=False, base=None, criteria=None,
                                   entries=[("p", n) for n, _ in HDR_FIELDS] + [("p", "ALT_P")], short=None, long=None))
        doc.alt_root = "AltRoot" + deco
    doc.unknown_apids = [300, 2046]
    # order of the SequenceContainer elements inside ContainerSet: base and nested containers may be defined after the
    # containers that refer to them (forward references)
    doc.cont_order = ch.pick(("as_is", "reversed", "rotated"), "cont_order")
    doc.foreign_note = ch.weighted([(7, None), (1, "default"), (1, "prefixed"), (1, "rebind")], "foreign_note")
    # pad every leaf to a whole number of bytes (dynamic fields are always whole bytes) so that packets
    # built for a leaf are consumed exactly; wrong-length packets are then made on purpose, not by accident
    byname = {c["name"]: c for c in doc.containers}
    for leaf in doc.leaves:
        total = 0
        for pname in _fields_of(doc, leaf["chain"]):
            k = doc.kinds[doc.ptype[pname]]
            if "bits" in k:
                total += k["bits"]
        pad = (-total) % 8
        if pad:
            tname = f"{leaf['name']}_PAD_Type"
            doc.types.append((tname, E("IntegerParameterType", {"name": tname}, [_int_encoding(pad, "unsigned")]),
                              {"kind": "uint", "bits": pad}))
            doc.kinds[tname] = {"kind": "uint", "bits": pad}
            doc.params.append((f"{leaf['name']}_PAD", tname, None, None))
            doc.ptype[f"{leaf['name']}_PAD"] = tname
            byname[leaf["name"]]["entries"].append(("p", f"{leaf['name']}_PAD"))
    return doc


def sibling(doc, ch):
    """A revision of ``doc``: same SpaceSystem name, same header, same names everywhere, exactly one thing differs (the
    size of one integer type, or the label of one enumeration value, or one added parameter). State keyed by a
    document's identity rather than by its content is stale for a sibling."""
    import copy
    sib = copy.deepcopy(doc)
    sib.features = set(doc.features) | {"sibling"}
    candidates = []
    ref_types = {sib.ptype[k_["ref"]] for (_n, _x, k_) in sib.types if k_.get("ref") in sib.ptype}
    for ti, (name, node, k) in enumerate(sib.types):
        if name.endswith("_Type"):            # header / pad / sub types keep their size (packets are built around them)
            continue
        if node[0] == "IntegerParameterType" and name not in ref_types and k.get("bits", 99) <= 32 and k.get("kind") in ("uint", "sint") \
                and any(c[0] == "IntegerDataEncoding" for c in node[2]):
            candidates.append(("resize", ti))
        if node[0] == "EnumeratedParameterType":
            candidates.append(("relabel", ti))
    how, ti = ch.pick(candidates, "sib_how") if candidates else ("add_param", None)
    if how == "resize":
        name, node, k = sib.types[ti]
        enc = next(c for c in node[2] if c[0] == "IntegerDataEncoding")
        new_bits = int(enc[1]["sizeInBits"]) + 8
        enc[1]["sizeInBits"] = str(new_bits)
        k["bits"] = new_bits
    elif how == "relabel":
        name, node, k = sib.types[ti]
        el = next(c for c in node[2] if c[0] == "EnumerationList")
        el[2][0][1]["label"] = el[2][0][1]["label"] + "_rev2"
    else:
        tname = "SIB_T"
        sib.types.append((tname, E("IntegerParameterType", {"name": tname}, [_int_encoding(8, "unsigned")]), {"kind": "uint", "bits": 8}))
        sib.params.append(("SIB_P", tname, None, None))
        sib.ptype["SIB_P"] = tname
        leafname = sib.leaves[0]["name"]
        next(c for c in sib.containers if c["name"] == leafname)["entries"].append(("p", "SIB_P"))
    for (name, node, k) in sib.types:       # the kinds dict must point at the (copied) kind records of the types list
        sib.kinds[name] = k
    return sib


# ---------------------------------------------------------------------------------------------
# rendering
# ---------------------------------------------------------------------------------------------

XTCE_URIS = (XTCE_URI, "http://www.omg.org/space/xtce", "https://www.omg.org/spec/XTCE/20180204")
CANONICAL = dict(ns="prefix", prefix="xtce", comments="none", ws="compact", seed=0, extra_ns=False, decl=True, uri=XTCE_URI)


def draw_rendering(ch):
    ns = ch.weighted([(4, "prefix"), (3, "default"), (3, "none")], "ns")
    prefix = None
    if ns == "prefix":
        # "a prefix of any name": ordinary ones, non-ASCII, punctuation, names that are (prefixes of) XTCE element
        # or attribute names, and drawn NCNames
        pk_ = ch.weighted([(3, "plain"), (3, "elementlike"), (2, "drawn")], "prefix_kind")
        if pk_ == "plain":
            prefix = ch.pick(("xtce", "x", "ξtce", "XTCE-1.2", "a_b"), "prefix")
        elif pk_ == "elementlike":
            prefix = ch.pick(("S", "Header", "P", "Parameter", "SpaceSystem", "E", "C", "T", "Comparison", "Telemetry",
                              "name", "Entry", "B", "I", "xsi2", "Fixed", "Cali", "U", "L", "D", "A", "O", "V"), "prefix")
        else:
            first = "abcdefghijklmnopqrstuvwxyzABCDEFGHIJKLMNOPQRSTUVWXYZ_"
            rest = first + "0123456789.-"
            prefix = first[ch.draw(len(first), "pfx0")] + "".join(rest[ch.draw(len(rest), "pfxc")]
                                                                  for _ in range(ch.draw(6, "pfxlen")))
            if prefix.lower().startswith("xml") or prefix == "xsi":
                prefix = "q" + prefix
    comments = ch.weighted([(4, "none"), (3, "some"), (2, "everywhere"), (1, "lists")], "comments")
    ws = ch.pick(("compact", "pretty", "tabs", "crlf"), "ws")
    seed = ch.draw(1 << 16, "rseed") if comments == "some" else 0
    extra_ns = ch.chance(1, 3, "extra_ns") and ns != "none"     # "no namespace at all" means none at all
    uri = ch.weighted([(4, XTCE_URIS[0]), (1, XTCE_URIS[1]), (1, XTCE_URIS[2])], "uri")     # which URI names the XTCE namespace
    return dict(ns=ns, prefix=prefix, comments=comments, ws=ws, seed=seed, extra_ns=extra_ns, uri=uri,
                decl=not ch.chance(1, 4, "nodecl"))


LIST_TAGS = {"EntryList", "ComparisonList", "ContextCalibratorList", "EnumerationList", "SplineCalibrator",
             "PolynomialCalibrator", "DiscreteLookupList", "ANDedConditions", "ORedConditions", "ParameterTypeSet",
             "ParameterSet", "ContainerSet"}


def _esc(s, attr=False):
    s = s.replace("&", "&amp;").replace("<", "&lt;").replace(">", "&gt;")
    if attr:
        s = s.replace('"', "&quot;")
    return s


def render(doc, rd):
    """XML bytes of ``doc`` under rendering descriptor ``rd``."""
    pre = (rd["prefix"] + ":") if rd["ns"] == "prefix" else ""
    ws = rd["ws"]
    nl = {"compact": "", "pretty": "\n", "tabs": "\n", "crlf": "\r\n"}[ws]
    ind = {"compact": "", "pretty": "  ", "tabs": "\t", "crlf": " "}[ws]
    state = [rd["seed"] or 1]
    counter = [0]

    def want_comment(parent_tag):
        mode = rd["comments"]
        if mode == "none":
            return False
        if mode == "everywhere":
            return True
        if mode == "lists":
            return parent_tag in LIST_TAGS
        state[0] = (state[0] * 1103515245 + 12345) & 0x7FFFFFFF
        return (state[0] >> 16) % 5 == 0

    def comment(depth):
        counter[0] += 1
        # ('--' is not allowed inside a comment, so hyphens of the prefix are not copied into it)
        return (f"{nl}{ind * depth}<!-- c{counter[0]}: <{pre.replace('-', '_')}Comparison parameterRef=\"X\"/> "
                f"not an element -->")

    out = []

    def emit(node, depth, root=False):
        tag, attrs, children, text = node
        if tag is None:
            # literal, already serialised content (a subtree in a foreign namespace); {P} is a prefix bound by the document
            pfx = rd["prefix"] if rd["ns"] == "prefix" else "zz"
            own = "n" if pfx != "n" else "m"          # the subtree's own prefix must differ from the one it rebinds
            out.append(f"{nl}{ind * depth}" + text.replace("{P}", pfx).replace("{N}", own))
            return
        a = "".join(f' {k}="{_esc(v, True)}"' for k, v in attrs.items())
        if root:
            if rd["ns"] == "prefix":
                a += f' xmlns:{rd["prefix"]}="{rd.get("uri", XTCE_URI)}"'
            elif rd["ns"] == "default":
                a += f' xmlns="{rd.get("uri", XTCE_URI)}"'
            if rd["extra_ns"]:
                a += ' xmlns:xsi="http://www.w3.org/2001/XMLSchema-instance"'
        lead = f"{nl}{ind * depth}" if not root else ""
        if children is None:
            out.append(f"{lead}<{pre}{tag}{a}>{_esc(text or '')}</{pre}{tag}>")
            return
        if not children and not want_comment(tag):
            out.append(f"{lead}<{pre}{tag}{a}/>")
            return
        out.append(f"{lead}<{pre}{tag}{a}>")
        if not children:
            out.append(comment(depth + 1))
        for c in children:
            if want_comment(tag):
                out.append(comment(depth + 1))
            emit(c, depth + 1)
        if children and want_comment(tag):
            out.append(comment(depth + 1))
        out.append(f"{nl}{ind * depth}</{pre}{tag}>")

    tree = doc_tree(doc)
    if rd["decl"]:
        out.append('<?xml version="1.0" encoding="UTF-8"?>' + nl)
    if rd["comments"] in ("everywhere", "some"):
        out.append("<!-- prolog comment -->" + nl)
    emit(tree, 0, root=True)
    if rd["comments"] == "everywhere":
        out.append(nl + "<!-- epilog comment -->")
    out.append(nl)
    return "".join(out).encode("utf-8")


def doc_tree(doc):
    params = []
    for (n, t, short, long_) in doc.params:
        a = {"name": n, "parameterTypeRef": t}
        if short:
            a["shortDescription"] = short
        params.append(E("Parameter", a, [E("LongDescription", text=long_)] if long_ else []))
    conts = []
    for c in doc.containers:
        a = {"name": c["name"]}
        if c["abstract"]:
            a["abstract"] = "true"
        if c["short"]:
            a["shortDescription"] = c["short"]
        ch_ = []
        if c["long"]:
            ch_.append(E("LongDescription", text=c["long"]))
        entries = [E("ParameterRefEntry", {"parameterRef": n}, []) if k == "p" else E("ContainerRefEntry", {"containerRef": n}, [])
                   for (k, n) in c["entries"]]
        ch_.append(E("EntryList", {}, entries))
        if c["base"]:
            ch_.append(E("BaseContainer", {"containerRef": c["base"]}, [E("RestrictionCriteria", {}, [c["criteria"]])]))
        conts.append(E("SequenceContainer", a, ch_))
    if doc.cont_order == "reversed":
        conts = conts[::-1]
        doc.features.add("forward_container_refs")
    elif doc.cont_order == "rotated" and len(conts) > 1:
        conts = conts[1:] + conts[:1]
        doc.features.add("forward_container_refs")
    header_children = []
    foreign = getattr(doc, "foreign_note", None)
    if foreign:
        # a note carrying a subtree in a foreign namespace that declares its own namespaces: a default namespace, a
        # prefix of its own, or (legal XML) a rebinding of the prefix the document uses for XTCE, all scoped to the subtree
        literal = {"default": '<div xmlns="http://www.w3.org/1999/xhtml"><p>operator note</p></div>',
                   "prefixed": '<ext:info xmlns:ext="urn:example:ext" ext:level="1"><ext:text>operator note</ext:text></ext:info>',
                   "rebind": '<{N}:info xmlns:{N}="urn:example:ext" xmlns:{P}="urn:example:other"><{P}:Parameter name="not XTCE"/></{N}:info>',
                   }[foreign]
        header_children = [E("NoteSet", {}, [E("Note", {}, [(None, {}, None, literal)])])]
        doc.features.add("foreign_subtree")
    return E("SpaceSystem", {"name": doc.name}, [
        E("Header", {"date": "2026-01-01T00:00:00", "version": "1.0", "validationStatus": "Working"}, header_children),
        E("TelemetryMetaData", {}, [
            E("ParameterTypeSet", {}, [n for (_, n, _) in doc.types]),
            E("ParameterSet", {}, params),
            E("ContainerSet", {}, conts)])])


def ns_prefix_arg(rd):
    """The xtce_ns_prefix argument that goes with a rendering."""
    return rd["prefix"] if rd["ns"] == "prefix" else None


# ---------------------------------------------------------------------------------------------
# packets for a document (encoder only)
# ---------------------------------------------------------------------------------------------

class _Bits:
    def __init__(self):
        self.v = 0
        self.n = 0

    def put(self, value, nbits):
        self.v = (self.v << nbits) | (value & ((1 << nbits) - 1))
        self.n += nbits

    def put_bytes(self, b):
        for x in b:
            self.put(x, 8)

    def to_bytes(self):
        pad = (-self.n) % 8
        return ((self.v << pad).to_bytes((self.n + pad) // 8, "big")) if self.n else b""


def _fields_of(doc, chain):
    byname = {c["name"]: c for c in doc.containers}
    out = []

    def walk(cname):
        for (k, n) in byname[cname]["entries"]:
            if k == "p":
                out.append(n)
            else:
                walk(n)
    for cname in chain[1:]:
        walk(cname)
    return out


def encode_packet(doc, chain, apid, fixed, sub, count=0, version=0, flags=3):
    """Bytes of a CCSDS packet whose data field follows ``chain`` of ``doc``. Values come from the
    sub-seed ``sub`` (0 -> all zero / minimal). Returns packet bytes."""
    stream = payload(sub, 4096)
    pos = [0]

    def rnd(nbits):
        nb = (nbits + 7) // 8
        chunk = stream[pos[0] % 3500:pos[0] % 3500 + nb]
        pos[0] += nb
        return int.from_bytes(chunk, "big") & ((1 << nbits) - 1)

    bits = _Bits()
    raw = {}
    for pname in _fields_of(doc, chain):
        k = doc.kinds[doc.ptype[pname]]
        kind = k["kind"]
        if pname in fixed:
            bits.put(fixed[pname], k["bits"])
            raw[pname] = fixed[pname]
        elif kind in ("uint", "sint", "enum", "bool"):
            v = rnd(k["bits"])
            bits.put(v, k["bits"])
            raw[pname] = v
        elif kind == "enumf":
            bits.put(int.from_bytes(struct.pack(">f", (0.0, 1.0, 2.5)[rnd(8) % 3]), "big"), 32)
        elif kind == "enums":
            bits.put(b"ABZ"[rnd(8) % 3], 8)
        elif kind == "float":
            if k["bits"] == 16:
                v = rnd(16)
                if (v >> 10) & 0x1F == 0x1F:      # avoid inf/nan only to keep traces readable; repr handles them anyway
                    v &= ~(1 << 14)
                bits.put(v, 16)
            else:
                bits.put(rnd(k["bits"]), k["bits"])
        elif kind == "binfixed":
            bits.put(rnd(k["bits"]), k["bits"])
        elif kind == "bindyn":
            n = k["slope"] * raw.get(k["ref"], 0) + k["icpt"]
            n = min(n, 8 * 2000)
            for _ in range(n // 8):
                bits.put(rnd(8), 8)
            if n % 8:
                bits.put(rnd(n % 8), n % 8)
        elif kind == "strlookup":
            r = raw.get(k["ref"], 0)
            n = k["sizes"][0] if r == 0 else (k["sizes"][1] if r == 1 else k["sizes"][2])
            bits.put_bytes(bytes(0x61 + (rnd(8) % 26) for _ in range(n // 8)))
        elif kind == "strfixed":
            nb = k["nbytes"]
            txt = bytes(0x41 + (rnd(8) % 26) for _ in range(nb))
            senc = k.get("enc", "")
            style = rnd(8)
            if senc.startswith("UTF-16"):
                # with or without a byte-order mark, in either byte order (a decoder that remembers the mark of an
                # earlier string reads a later one wrongly)
                bom = (b"", b"\xff\xfe", b"\xfe\xff")[style % 3]
                big = bom == b"\xfe\xff" or (not bom and senc == "UTF-16BE")
                chars = b"".join((b"\x00" + bytes([c])) if big else (bytes([c]) + b"\x00") for c in txt)
                txt = (bom + chars)[:nb]
            elif senc == "UTF-8" and style % 4 == 0 and k["mode"] == "raw":
                # multi-byte characters; one time in four the last one is cut off by the end of the field
                multi = "".join(("\u00e9", "\u20ac", "\u00df", "A")[(style >> (2 + 2 * j)) % 4] for j in range(3)).encode("utf-8") * 3
                txt = multi[:nb] if (style >> 2) % 4 == 0 else (multi[:nb].decode("utf-8", "ignore").encode("utf-8") + b"AAAAAAAA")[:nb]
                if (style >> 2) % 4 != 0:
                    try:
                        txt.decode("utf-8")
                    except UnicodeDecodeError:
                        txt = bytes(0x41 + (c % 26) for c in txt)
            if k["mode"] == "term":
                cut = rnd(8) % nb
                txt = txt[:cut] + b"\x00" + txt[cut + 1:]
            elif k["mode"] == "lead":
                ln = rnd(8) % nb
                if senc.startswith("UTF-16") and style % 8 != 7:
                    ln &= ~1                  # whole two-byte characters (one time in eight: an odd count, legal to declare)
                txt = bytes([ln * 8]) + txt[1:]
            bits.put_bytes(txt)
        elif kind == "strdyn":
            nb = raw.get(k["ref"], 0) + 1
            txt = bytes(0x61 + (rnd(8) % 26) for _ in range(nb))
            if k.get("mode") == "term":
                cut = rnd(8) % nb
                txt = txt[:cut] + b"\x00" + txt[cut + 1:]
            elif k.get("mode") == "lead":
                txt = bytes([(rnd(8) % min(nb, 32)) * 8]) + txt[1:]
            bits.put_bytes(txt)
    data = bits.to_bytes()
    if not data:
        data = b"\x00"
    w0 = ((version & 7) << 13) | (apid & 0x7FF)
    w1 = ((flags & 3) << 14) | (count & 0x3FFF)
    return w0.to_bytes(2, "big") + w1.to_bytes(2, "big") + (len(data) - 1).to_bytes(2, "big") + data


def probe_packets(doc):
    """A fixed, rendering-independent packet set for a document: two per leaf + unknown + ambiguous."""
    out = []
    for li, leaf in enumerate(doc.leaves):
        for s in (0, 1 + li):
            out.append(encode_packet(doc, leaf["chain"], leaf["apid"], leaf["fixed"], s * 7919, count=len(out)))
    out.append(encode_packet(doc, ["CCSDSPacket"], doc.unknown_apids[0], {}, 5, count=len(out)))
    if doc.ambiguous_apid is not None:
        out.append(encode_packet(doc, ["CCSDSPacket"], doc.ambiguous_apid, {}, 6, count=len(out)))
    return out


# ---------------------------------------------------------------------------------------------
# neutral views of library objects
# ---------------------------------------------------------------------------------------------

_EXCLUDE_TOP = {"ns", "xtce_ns_prefix", "xtce_schema_uri"}
# what a definition is made of today. A top-level attribute that is neither listed here nor in _EXCLUDE_TOP and holds a
# plain scalar (a new piece of bookkeeping, e.g. a schema version derived from the namespace URI) is compared only with
# the same bytes loaded first (top=False), not across spellings: whether it may depend on the spelling is not known
_KNOWN_TOP = {"parameter_types", "parameters", "containers", "root_container_name", "space_system_name",
              "validation_status", "xtce_version", "date"}


def fingerprint(obj, top=True, _depth=0, _memo=None):
    """Neutral nested-tuple view of an object graph. Each object is described once: a revisit (shared object, back
    reference, cycle) becomes ('<ref>', class name, ordinal of first visit), which keeps the walk linear and makes
    aliasing part of the view."""
    if _memo is None:
        _memo = {}
    if _depth > 60:
        return ("<deep>",)
    if obj is None or isinstance(obj, (bool, int, str, bytes)):
        return (type(obj).__name__, obj)
    if isinstance(obj, float):
        return ("float", repr(obj))
    import enum as _enum
    if isinstance(obj, _enum.Enum):
        return ("enum", type(obj).__name__, obj.name)
    key = id(obj)
    if key in _memo:
        return ("<ref>", type(obj).__name__, _memo[key])
    is_container = isinstance(obj, (dict, list, tuple, set, frozenset))
    if not (is_container and not obj):          # (empty containers may be interned / shared; they carry no identity)
        _memo[key] = len(_memo)
    if isinstance(obj, dict):
        return ("dict",) + tuple((fingerprint(k, False, _depth + 1, _memo), fingerprint(v, False, _depth + 1, _memo))
                                 for k, v in obj.items())
    if isinstance(obj, (list, tuple)):
        return (type(obj).__name__,) + tuple(fingerprint(x, False, _depth + 1, _memo) for x in obj)
    if isinstance(obj, (set, frozenset)):
        return ("set",) + tuple(sorted(repr(fingerprint(x, False, _depth + 1, dict(_memo))) for x in obj))
    if callable(obj) and not hasattr(obj, "__dict__") or type(obj).__name__ in ("function", "method", "builtin_function_or_method"):
        res = []
        for x in (0, 1, 2):
            try:
                res.append(repr(obj(x)))
            except Exception as e:      # noqa: BLE001
                res.append(type(e).__name__)
        return ("callable",) + tuple(res)
    import dataclasses
    import functools
    # state = declared dataclass fields (read with getattr: works for __slots__ classes too) + public instance
    # attributes that are not class-level descriptors (a functools.cached_property / property parks its value under its own
    # name: that is a cache, not state) ; never _private or name-mangled attributes
    d = getattr(obj, "__dict__", None)
    names = []
    if dataclasses.is_dataclass(obj):
        names += [f.name for f in dataclasses.fields(obj)]
    for c in type(obj).__mro__:
        for n in getattr(c, "__slots__", ()):
            if n not in names and n not in ("__dict__", "__weakref__"):
                names.append(n)
    if d is not None:
        names += [n for n in sorted(d) if n not in names]
    if not names and d is None:
        r = repr(obj)
        return (type(obj).__name__, r if " at 0x" not in r else "<object>")      # never an address
    items = []
    for kname in names:
        if top and kname in _EXCLUDE_TOP:
            continue
        if kname.startswith("_"):
            continue
        cls_attr = getattr(type(obj), kname, None)
        if isinstance(cls_attr, (functools.cached_property, property)):
            continue
        try:
            val = getattr(obj, kname)
        except AttributeError:
            continue
        if top and kname not in _KNOWN_TOP and (val is None or isinstance(val, (bool, int, float, str, bytes))):
            continue
        items.append((kname, fingerprint(val, False, _depth + 1, _memo)))
    return (type(obj).__name__,) + tuple(items)


def plain_value(v):
    """The built-in value behind a parsed value (IntParameter -> int ...), independent of how the class prints itself."""
    try:
        if isinstance(v, bool):
            return bool(v)
        if isinstance(v, int):
            return int.__int__(v)
        if isinstance(v, float):
            return repr(float.__float__(v))
        if isinstance(v, str):
            return str.__add__(v, "")
        if isinstance(v, (bytes, bytearray)):
            return bytes(v)
    except Exception:      # noqa: BLE001
        pass
    return None


def canon_value(v):
    rv = getattr(v, "raw_value", None)
    return (type(v).__name__, repr(v), type(rv).__name__, repr(rv), plain_value(v))


def canon_item(item):
    """Neutral form of a generator item: parsed packet or (unraised) error object."""
    if isinstance(item, BaseException):
        pd = getattr(item, "partial_data", None)
        return ("ERR", type(item).__name__, canon_item(pd) if pd is not None else None)
    if isinstance(item, dict) or (hasattr(item, "items") and hasattr(item, "keys") and not isinstance(item, (bytes, str))):
        rd = getattr(item, "raw_data", None)
        return ("PKT", tuple((k, canon_value(v)) for k, v in item.items()),
                bytes(rd) if rd is not None else None, getattr(rd, "pos", None))
    if isinstance(item, bytes):
        return ("RAW", bytes(item))
    r = repr(item)
    return ("OTHER", type(item).__name__, r if " at 0x" not in r else "<object>")


_ = struct   # (kept for callers that want to build float payloads)
