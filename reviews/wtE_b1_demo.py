"""C19 as stated: 'Neither command ends in a traceback ... on any file'. The check only ever gives `spp parse` the
header-only definition models/header_only.xml, under which every complete packet parses. With a real mission definition
(the repo's own JPSS XTCE) a file holding one complete, well-formed CCSDS packet whose data field is shorter than the
container needs makes `spp parse` (with or without --packet 0) end in a traceback."""
import os, sys, tempfile
repo = os.environ.get("VERIF_REPO", "/repo")
sys.path.insert(0, repo)
from click.testing import CliRunner
from space_packet_parser import cli
from space_packet_parser.packets import create_ccsds_packet
xtce = os.path.join(repo, "tests/test_data/jpss/jpss1_geolocation_xtce_v1.xml")
rc = 0
for apid in (11,):
    for args_extra in ([], ["--packet", "0"]):
        pkt = bytes(create_ccsds_packet(b"\x00" * 3, apid=apid, sequence_count=5))   # complete packet, 3 data bytes
        fd, path = tempfile.mkstemp(suffix=".pkts"); os.write(fd, pkt); os.close(fd)
        r = CliRunner().invoke(cli.spp, ["parse", path, xtce] + args_extra)
        os.unlink(path)
        print(f"spp parse <1 packet, apid={apid}, 3 data bytes> jpss.xml {' '.join(args_extra)} -> exit={r.exit_code} exception={r.exception!r}")
        if r.exception is not None and not isinstance(r.exception, SystemExit):
            rc = 1
sys.exit(rc)
