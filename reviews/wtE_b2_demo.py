"""`spp describe-packets` / `spp parse` on an EMPTY file, run exactly as a user gets it (the spp group configures INFO logging)."""
import os, sys, tempfile
sys.path.insert(0, os.environ.get("VERIF_REPO", "/repo"))
from click.testing import CliRunner
from space_packet_parser import cli
fd, p = tempfile.mkstemp(suffix=".pkts"); os.close(fd)
rc = 0
for args in (["describe-packets", p], ["parse", p, "/verif/models/header_only.xml", "--packet", "0"]):
    r = CliRunner().invoke(cli.spp, args)
    print(args[0], "-> exit", r.exit_code, "exception", repr(r.exception))
    rc |= int(r.exception is not None and not isinstance(r.exception, SystemExit))
os.unlink(p); sys.exit(rc)
