"""wtF_bs3: a comment between the children of <EnumerationList> of a float- (or string-) encoded enumerated type makes the
load fail, the same document without the comment loads -> C16 violated (spelling: comments between elements)."""
import sys, io
sys.path.insert(0, sys.argv[1] if len(sys.argv) > 1 else "/repo")
sys.path.insert(0, "/verif")
from sim import factory
from space_packet_parser.xtce.definitions import XtcePacketDefinition
def doc(comment):
    xml = factory.header_only_xtce().decode()
    xml = xml.replace('</xtce:ParameterTypeSet>', '<xtce:EnumeratedParameterType name="E_Type"><xtce:FloatDataEncoding sizeInBits="32"/>'
                      f'<xtce:EnumerationList><xtce:Enumeration value="0.0" label="OFF"/>{comment}<xtce:Enumeration value="1.0" label="ON"/>'
                      '</xtce:EnumerationList></xtce:EnumeratedParameterType></xtce:ParameterTypeSet>')
    xml = xml.replace('</xtce:ParameterSet>', '<xtce:Parameter name="E" parameterTypeRef="E_Type"/></xtce:ParameterSet>')
    xml = xml.replace('</xtce:EntryList>', '<xtce:ParameterRefEntry parameterRef="E"/></xtce:EntryList>')
    return xml.encode()
a = XtcePacketDefinition.from_xtce(io.BytesIO(doc("")))
try:
    b = XtcePacketDefinition.from_xtce(io.BytesIO(doc("<!-- states -->")))
    print("with comment: loads;", "equal" if a == b else "DIFFERENT"); sys.exit(0 if a == b else 1)
except Exception as e:
    print("with comment:", type(e).__name__, e); sys.exit(1)
