"""C16 as stated is violated by wtB_B2: a comment between the children of a <Condition> that compares two parameters
changes the loaded definition (here: loading fails / mixes operands). cd <tree> && python this (exit 1 = violated)."""
import io, os, sys
sys.path.insert(0, os.getcwd())
from space_packet_parser.xtce.definitions import XtcePacketDefinition
F = (("VERSION", 3), ("TYPE", 1), ("SEC_HDR_FLG", 1), ("PKT_APID", 11), ("SEQ_FLGS", 2), ("SRC_SEQ_CTR", 14), ("PKT_LEN", 16), ("A", 8), ("B", 8))
def doc(comment):
    return ('<xtce:SpaceSystem name="T" xmlns:xtce="http://www.omg.org/spec/XTCE/20180204"><xtce:TelemetryMetaData><xtce:ParameterTypeSet>'
       + "".join(f'<xtce:IntegerParameterType name="{n}_T" signed="false"><xtce:IntegerDataEncoding sizeInBits="{b}" encoding="unsigned"/></xtce:IntegerParameterType>' for n, b in F)
       + '</xtce:ParameterTypeSet><xtce:ParameterSet>' + "".join(f'<xtce:Parameter name="{n}" parameterTypeRef="{n}_T"/>' for n, _ in F)
       + '</xtce:ParameterSet><xtce:ContainerSet><xtce:SequenceContainer name="CCSDSPacket" abstract="true"><xtce:EntryList>'
       + "".join(f'<xtce:ParameterRefEntry parameterRef="{n}"/>' for n, _ in F)
       + '</xtce:EntryList></xtce:SequenceContainer><xtce:SequenceContainer name="EQ"><xtce:EntryList/><xtce:BaseContainer containerRef="CCSDSPacket">'
         '<xtce:RestrictionCriteria><xtce:BooleanExpression><xtce:Condition>' + comment +
         '<xtce:ParameterInstanceRef parameterRef="A"/><xtce:ComparisonOperator>==</xtce:ComparisonOperator>'
         '<xtce:ParameterInstanceRef parameterRef="B"/></xtce:Condition></xtce:BooleanExpression></xtce:RestrictionCriteria>'
         '</xtce:BaseContainer></xtce:SequenceContainer></xtce:ContainerSet></xtce:TelemetryMetaData></xtce:SpaceSystem>').encode()
def view(x):
    try:
        d = XtcePacketDefinition.from_xtce(io.BytesIO(x))
        c = d.containers["EQ"].restriction_criteria[0].expression
        return ("ok", c.left_param, c.operator, c.right_param)
    except Exception as e:
        return ("raises", type(e).__name__)
a, b = view(doc("")), view(doc("<!-- operands follow -->"))
print("no comment  :", a); print("with comment:", b)
sys.exit(0 if a == b else 1)
