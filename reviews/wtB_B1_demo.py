"""C11 as stated is violated by wtB_B1: a wrong-length packet changes the result for ANOTHER packet / another generator.
Run from the root of the tree under test:  cd <tree> && /venv/bin/python /tmp/review/wtB_B1_demo.py   (exit 1 = violated)"""
import io, os, sys, warnings
sys.path.insert(0, os.getcwd())
from space_packet_parser.xtce.definitions import XtcePacketDefinition
warnings.simplefilter("ignore")
F = (("VERSION", 3), ("TYPE", 1), ("SEC_HDR_FLG", 1), ("PKT_APID", 11), ("SEQ_FLGS", 2), ("SRC_SEQ_CTR", 14), ("PKT_LEN", 16), ("DATA", 8))
xml = ('<xtce:SpaceSystem name="T" xmlns:xtce="http://www.omg.org/spec/XTCE/20180204"><xtce:TelemetryMetaData><xtce:ParameterTypeSet>'
       + "".join(f'<xtce:IntegerParameterType name="{n}_T" signed="false"><xtce:IntegerDataEncoding sizeInBits="{b}" encoding="unsigned"/></xtce:IntegerParameterType>' for n, b in F)
       + '</xtce:ParameterTypeSet><xtce:ParameterSet>' + "".join(f'<xtce:Parameter name="{n}" parameterTypeRef="{n}_T"/>' for n, _ in F)
       + '</xtce:ParameterSet><xtce:ContainerSet><xtce:SequenceContainer name="CCSDSPacket"><xtce:EntryList>'
       + "".join(f'<xtce:ParameterRefEntry parameterRef="{n}"/>' for n, _ in F)
       + '</xtce:EntryList></xtce:SequenceContainer></xtce:ContainerSet></xtce:TelemetryMetaData></xtce:SpaceSystem>').encode()
def pkt(apid, count, data):
    return ((apid).to_bytes(2, "big") + (0xC000 | count).to_bytes(2, "big") + (len(data) - 1).to_bytes(2, "big") + data)
good, bad = pkt(5, 1, b"\x2a"), pkt(5, 0, b"\x2a\xff")          # bad = one trailing byte too many
d = XtcePacketDefinition.from_xtce(io.BytesIO(xml))
alone = [dict(p) for p in d.packet_generator(good, parse_bad_pkts=False)]
stream = [dict(p) for p in d.packet_generator(bad + good, parse_bad_pkts=False)]
print("good packet alone      ->", len(alone), "item(s)")
print("bad packet, then good  ->", len(stream), "item(s)   (C11: must equal [] + alone)")
d2 = XtcePacketDefinition.from_xtce(io.BytesIO(xml))
other = [dict(p) for p in d2.packet_generator(good, parse_bad_pkts=False)]
print("good packet, other definition object, later in the process ->", len(other), "item(s)")
sys.exit(0 if (stream == alone and other == alone) else 1)
