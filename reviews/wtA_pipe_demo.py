"""HEAD behaviour of the framer on a finite, non-seekable binary file object (a pipe / stdin)."""
import io, os, sys, subprocess
sys.path.insert(0, os.environ.get("VERIF_REPO", "/tmp/review/wtA"))
from space_packet_parser.packets import ccsds_generator
def pkt(cnt): return bytes([0, 100, 0xC0 | (cnt >> 8), cnt & 0xFF, 0, 2, 1, 2, 3])
data = b"".join(pkt(i) for i in range(3)) + pkt(9)[:5]        # 3 packets + a torn tail
r, w = os.pipe(); os.write(w, data); os.close(w)                 # finite source: writer closed
f = os.fdopen(r, "rb")
print(type(f).__name__, "isinstance BufferedIOBase:", isinstance(f, io.BufferedIOBase), "seekable:", f.seekable())
try:
    print("items:", [len(p) for p in ccsds_generator(f)])
except BaseException as e:
    print("ESCAPED:", type(e).__name__, e)
# the same through a shell pipe into sys.stdin.buffer
code = ("import sys; sys.path.insert(0, %r); from space_packet_parser.packets import ccsds_generator; "
        "print([len(p) for p in ccsds_generator(sys.stdin.buffer)])" % os.environ.get("VERIF_REPO", "/tmp/review/wtA"))
p = subprocess.run([sys.executable, "-c", code], input=data, capture_output=True)
print("stdin pipe: rc=%d stderr tail=%r" % (p.returncode, p.stderr.decode().strip().splitlines()[-1:] ))
