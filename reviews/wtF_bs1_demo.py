"""Demonstration for wtF_bs1: with parse_bad_pkts=False, the 11th over-long packet of a stream is yielded although
the same packet parsed on its own (fresh generator) is withheld -> C11 violated ("a packet that is ... length-mismatched
or skipped never changes the result for any other packet")."""
import sys, io, warnings
sys.path.insert(0, sys.argv[1] if len(sys.argv) > 1 else "/repo")
sys.path.insert(0, "/verif")
from sim import factory
from space_packet_parser.xtce.definitions import XtcePacketDefinition
d = XtcePacketDefinition.from_xtce(io.BytesIO(factory.header_only_xtce()))
pkts = [factory.build_packet(0, 0, 0, 5, 3, i, b"\x01\x02\x03") for i in range(40)]   # header-only definition: every packet is over-long
warnings.simplefilter("ignore")
stream = list(d.packet_generator(b"".join(pkts), parse_bad_pkts=False))
alone = [len(list(d.packet_generator(p, parse_bad_pkts=False))) for p in pkts]
print("items from the stream :", len(stream), [int(p["SRC_SEQ_CTR"]) for p in stream])
print("items, each pkt alone :", alone)
sys.exit(1 if len(stream) != sum(alone) else 0)
