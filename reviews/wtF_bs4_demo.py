"""wtF_bs4: a generator created with root_container_name=X leaves X on the shared definition; a second generator created
from the same definition WITHOUT that option then parses from X as well -> C11 violated (generators interfere; parsing
modifies the definition)."""
import sys, io, warnings
sys.path.insert(0, sys.argv[1] if len(sys.argv) > 1 else "/repo")
sys.path.insert(0, "/verif")
from sim import factory
from space_packet_parser.xtce.definitions import XtcePacketDefinition
xml = factory.header_only_xtce().decode()
hdr_entries = "".join(f'<xtce:ParameterRefEntry parameterRef="{n}"/>' for n, _ in factory._HDR_FIELDS)
xml = xml.replace('</xtce:ParameterTypeSet>', '<xtce:IntegerParameterType name="X_Type"><xtce:IntegerDataEncoding sizeInBits="8"/>'
                  '</xtce:IntegerParameterType></xtce:ParameterTypeSet>')
xml = xml.replace('</xtce:ParameterSet>', '<xtce:Parameter name="X" parameterTypeRef="X_Type"/></xtce:ParameterSet>')
xml = xml.replace('</xtce:ContainerSet>', f'<xtce:SequenceContainer name="ALT"><xtce:EntryList>{hdr_entries}'
                  '<xtce:ParameterRefEntry parameterRef="X"/></xtce:EntryList></xtce:SequenceContainer></xtce:ContainerSet>')
pkt = factory.build_packet(0, 0, 0, 5, 3, 1, b"\x2a")
warnings.simplefilter("ignore")
d = XtcePacketDefinition.from_xtce(io.BytesIO(xml.encode()))
alone = [sorted(p) for p in d.packet_generator(pkt)]
d2 = XtcePacketDefinition.from_xtce(io.BytesIO(xml.encode()))
ga = d2.packet_generator(pkt + pkt, root_container_name="ALT")
gb = d2.packet_generator(pkt + pkt)
next(ga)
inter = [sorted(p) for p in gb]
print("default-root generator alone       :", ["X" in p for p in alone])
print("default-root generator, interleaved:", ["X" in p for p in inter], "root now:", d2.root_container_name)
sys.exit(1 if [("X" in p) for p in inter] != [False, False] else 0)
