"""HEAD behaviour of `spp parse FILE XTCE --packet <negative>` (no library change)."""
import os, sys, tempfile
sys.path.insert(0, os.environ.get("VERIF_REPO", "/tmp/review/wtA"))
from click.testing import CliRunner
from space_packet_parser import cli
def pkt(cnt): return bytes([0, 100, 0xC0 | (cnt >> 8), cnt & 0xFF, 0, 2, 1, 2, 3])
fd, path = tempfile.mkstemp(suffix=".pkts"); os.write(fd, b"".join(pkt(500 + i) for i in range(3))); os.close(fd)
for idx in ("-1", "-3", "-4", "-5"):
    r = CliRunner().invoke(cli.spp, ["parse", path, "/verif/models/header_only.xml", "--packet", idx])
    print(f"--packet {idx} on a 3-packet file: exit_code={r.exit_code} exception={r.exception!r} "
          f"counters={[l.strip() for l in r.output.splitlines() if 'SRC_SEQ_CTR' in l]}")
os.unlink(path)
