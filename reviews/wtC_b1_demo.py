"""C12 violation demo: a FIRST + 20 CONTINUATION + LAST group (consecutive counts) must be parsed as one packet."""
import sys, os, warnings
sys.path.insert(0, os.getcwd())
from space_packet_parser import packets
from space_packet_parser.xtce import definitions
d = definitions.XtcePacketDefinition.from_xtce("/verif/models/header_only.xml")
nseg = int(sys.argv[1]) if len(sys.argv) > 1 else 22
dlen = int(sys.argv[2]) if len(sys.argv) > 2 else 8
segs = []
for i in range(nseg):
    fl = packets.SequenceFlags.FIRST if i == 0 else (packets.SequenceFlags.LAST if i == nseg - 1 else packets.SequenceFlags.CONTINUATION)
    segs.append(packets.create_ccsds_packet(data=bytes([i % 251]) * dlen, apid=11, sequence_flags=fl, sequence_count=i))
with warnings.catch_warnings():
    warnings.simplefilter("ignore")
    out = list(d.packet_generator(b"".join(segs), combine_segmented_packets=True))
exp = bytes(segs[0]) + b"".join(bytes(s)[6:] for s in segs[1:])
ok = len(out) == 1 and bytes(out[0].raw_data) == exp
print("segments", nseg, "data bytes each", dlen, "outputs", len(out), "OK" if ok else "PROPERTY VIOLATED")
sys.exit(0 if ok else 1)
