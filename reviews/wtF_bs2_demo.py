"""wtF_bs2: with combine_segmented_packets=True and parse_bad_pkts=False a complete, in-sequence FIRST/CONT/LAST group
whose reassembly parses EXACTLY (no length mismatch) is silently dropped -> C12 violated ("a FIRST ... LAST ... is parsed
as one packet"; the list of dropped packets does not include it)."""
import sys, io, warnings
sys.path.insert(0, sys.argv[1] if len(sys.argv) > 1 else "/repo")
sys.path.insert(0, "/verif")
from sim import factory
from space_packet_parser.xtce.definitions import XtcePacketDefinition
xml = factory.header_only_xtce().decode()
# header + one 48-bit binary field: the reassembled packet (6 + 6 bytes) is consumed exactly
xml = xml.replace('</xtce:ParameterTypeSet>', '<xtce:BinaryParameterType name="B_Type"><xtce:BinaryDataEncoding><xtce:SizeInBits>'
                  '<xtce:FixedValue>48</xtce:FixedValue></xtce:SizeInBits></xtce:BinaryDataEncoding></xtce:BinaryParameterType></xtce:ParameterTypeSet>')
xml = xml.replace('</xtce:ParameterSet>', '<xtce:Parameter name="B" parameterTypeRef="B_Type"/></xtce:ParameterSet>')
xml = xml.replace('</xtce:EntryList>', '<xtce:ParameterRefEntry parameterRef="B"/></xtce:EntryList>')
d = XtcePacketDefinition.from_xtce(io.BytesIO(xml.encode()))
segs = [factory.build_packet(0, 0, 0, 5, factory.FLAG_FIRST, 1, b"\x01\x02"),
        factory.build_packet(0, 0, 0, 5, factory.FLAG_CONT, 2, b"\x03\x04"),
        factory.build_packet(0, 0, 0, 5, factory.FLAG_LAST, 3, b"\x05\x06")]
whole = factory.build_packet(0, 0, 0, 5, factory.FLAG_UNSEG, 1, b"\x01\x02\x03\x04\x05\x06")
with warnings.catch_warnings(record=True) as rec:
    warnings.simplefilter("always")
    a = list(d.packet_generator(b"".join(segs), combine_segmented_packets=True))
    b = list(d.packet_generator(b"".join(segs), combine_segmented_packets=True, parse_bad_pkts=False))
    c = list(d.packet_generator(whole, parse_bad_pkts=False))
print("group, parse_bad_pkts=True :", [(bytes(p.raw_data).hex(), p["B"]) for p in a])
print("group, parse_bad_pkts=False:", [(bytes(p.raw_data).hex(), p["B"]) for p in b])
print("same content unsegmented, parse_bad_pkts=False:", [p["B"] for p in c], "warnings:", len(rec))
sys.exit(1 if len(b) != 1 else 0)
