"""C11 demo: the same packet twice in a row (retransmission, or a constant housekeeping packet from an instrument whose
counter is stuck). Parsing each alone yields one item each; the stream yields only one. exit 1 = property violated."""
import sys, os
sys.path.insert(0, os.getcwd())
import space_packet_parser as spp
from space_packet_parser.xtce.definitions import XtcePacketDefinition
d = XtcePacketDefinition.from_xtce("tests/test_data/jpss/jpss1_geolocation_xtce_v1.xml")
raw = list(spp.packets.ccsds_generator(open("tests/test_data/jpss/J01_G011_LZ_2021-04-09T00-00-00Z_V01.DAT1", "rb")))[:2]
a, b = bytes(raw[0]), bytes(raw[1])
alone = [len(list(d.packet_generator(p))) for p in (a, a, b)]
together = len(list(d.packet_generator(a + a + b)))
print("alone:", alone, "together:", together)
sys.exit(0 if together == sum(alone) else 1)
