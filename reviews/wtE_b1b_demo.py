"""Second half of B1: with a real definition `--packet i` indexes the list of *recognised* packets, not the packets of the file."""
import os, sys, tempfile, re
repo = os.environ.get("VERIF_REPO", "/repo"); sys.path.insert(0, repo)
from click.testing import CliRunner
from space_packet_parser import cli
from space_packet_parser.packets import create_ccsds_packet, ccsds_generator
xtce = os.path.join(repo, "tests/test_data/jpss/jpss1_geolocation_xtce_v1.xml")
data = os.path.join(repo, "tests/test_data/jpss/J01_G011_LZ_2021-04-09T00-00-00Z_V01.DAT1")
with open(data, "rb") as f:
    good = bytes(next(ccsds_generator(f)))
unknown = bytes(create_ccsds_packet(b"\x00" * 8, apid=999, sequence_count=77))
fd, path = tempfile.mkstemp(suffix=".pkts"); os.write(fd, unknown + good); os.close(fd)
for i in (0, 1):
    r = CliRunner().invoke(cli.spp, ["-q", "parse", path, xtce, "--packet", str(i), "--max-items", "8"])
    apid = re.findall(r"PKT_APID\W{1,4}(\d+)", r.output)
    print(f"file = [apid 999 (not in the definition), apid 11]; --packet {i} -> exit={r.exit_code} APIDs shown={apid} "
          f"{'| ' + r.output.strip().splitlines()[-1] if not apid else ''}")
os.unlink(path)
