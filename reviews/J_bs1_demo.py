"""Demo (exit 1 = property violated): generator A dies of its own truncated packet; generator B, created from the same
definition and fed only good packets, must still yield exactly what parsing each of its packets alone yields."""
import sys, warnings
root = sys.argv[1] if len(sys.argv) > 1 else "/tmp/review/wtJ"
sys.path.insert(0, root)
warnings.simplefilter("ignore")
from space_packet_parser.xtce.definitions import XtcePacketDefinition
from space_packet_parser import packets
xtce = root + "/tests/test_data/jpss/jpss1_geolocation_xtce_v1.xml"
data = open(root + "/tests/test_data/jpss/J01_G011_LZ_2021-04-09T00-00-00Z_V01.DAT1", "rb").read()
raws = [bytes(p) for _, p in zip(range(4), packets.ccsds_generator(data))]
def view(p): return (tuple((k, repr(v)) for k, v in p.items()), bytes(p.raw_data))
alone = [view(next(XtcePacketDefinition.from_xtce(xtce).packet_generator(r))) for r in raws]
d = XtcePacketDefinition.from_xtce(xtce)
short = raws[0][:4] + (len(raws[0]) - 6 - 1 - 20).to_bytes(2, "big") + raws[0][6:-20]     # consistent header, 20 bytes too few
a = d.packet_generator(short + raws[1])
b = d.packet_generator(b"".join(raws))
got = [view(next(b))]
try:
    next(a)
    print("generator A yielded (no exception)")
except Exception as e:
    print("generator A ended with", type(e).__name__, e)
try:
    got += [view(x) for x in b]
except Exception as e:
    print("generator B raised", type(e).__name__, e)
    sys.exit(1)
print("B equals alone:", got == alone)
sys.exit(0 if got == alone else 1)
