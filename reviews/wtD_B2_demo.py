"""C16 demo: revision 2 of a space system (same SpaceSystem name and header date, one type widened from 8 to 16 bits)
loaded after revision 1 gets revision 1's parameter types. exit 1 = definition depends on earlier loads."""
import io, os, sys, subprocess
sys.path.insert(0, os.getcwd())
DOC = '''<xtce:SpaceSystem xmlns:xtce="http://www.omg.org/spec/XTCE/20180204" name="INSTR">
<xtce:Header date="2026-01-01T00:00:00" version="1.0"/>
<xtce:TelemetryMetaData><xtce:ParameterTypeSet>
<xtce:IntegerParameterType name="T"><xtce:IntegerDataEncoding sizeInBits="%d" encoding="unsigned"/></xtce:IntegerParameterType>
</xtce:ParameterTypeSet><xtce:ParameterSet><xtce:Parameter name="P" parameterTypeRef="T"/></xtce:ParameterSet>
<xtce:ContainerSet><xtce:SequenceContainer name="CCSDSPacket"><xtce:EntryList><xtce:ParameterRefEntry parameterRef="P"/>
</xtce:EntryList></xtce:SequenceContainer></xtce:ContainerSet></xtce:TelemetryMetaData></xtce:SpaceSystem>'''
from space_packet_parser.xtce.definitions import XtcePacketDefinition as D
def bits(d): return d.parameter_types["T"].encoding.size_in_bits
if len(sys.argv) > 1:      # child: load rev 2 first
    print(bits(D.from_xtce(io.StringIO(DOC % 16)))); sys.exit(0)
first = int(subprocess.run([sys.executable, __file__, "first"], capture_output=True, text=True).stdout)
D.from_xtce(io.StringIO(DOC % 8))
later = bits(D.from_xtce(io.StringIO(DOC % 16)))
print("rev 2 loaded first:", first, "bits; loaded after rev 1:", later, "bits")
sys.exit(0 if first == later else 1)
