"""Generate /verif/MANIFEST.json (kept in one place so it stays valid)."""
import json
import os
import sys

HERE = os.path.dirname(os.path.dirname(os.path.abspath(__file__)))
TECH = "deterministic simulation with fault injection"

CLAIMED = {
    "C02": dict(
        level="exploration", design="4.1",
        text=("Seeded search over simulated producers/links/disks: the real framer reads factory-built packet streams (data fields 1..65536 incl. power-of-two lengths and the two all-same-bit packets; prefixes 0..300) through a bytes object, a real BufferedReader over a simulated raw disk (short reads, any buffer size, seekable or a non-seekable pipe), BytesIO, a real temp file, a GzipFile, and a socket.socket subclass whose receive methods are fed by a simulated TCP pipe with seeded write sizes, delays and fragmentation; every item is compared byte-for-byte with what the factory built, and a consumer blocked needing bytes beyond a packet's end is a violation. Sampling (not enumeration) of chunkings is the right level: the space is unbounded and the failure modes (boundary in prefix/header/body/on packet end, trim branch, max-size packets) are probed and counted."),
        note=("Trusted: the 40-line packet factory and CPython's io.BufferedReader. The 20 MB trim threshold is reached genuinely (cases 0..4 push > 20 MB through bytes / file / socket / pipe) and through a clone of ccsds_generator (incl. nested helpers and named module constants) with only that value replaced. No close/EOF faults here (C10)."),
        technique=TECH + ": seeded schedules of producer writes / recv fragmentation / short disk reads, oracle = factory bytes"),
    "C10": dict(
        level="fault_enumeration", design="4.2",
        text=('The producer/link/recorder is crashed at EVERY byte offset of each sampled small stream (and at drawn offsets near packet/header boundaries of longer ones, of streams with 32-64 KiB packets and of genuine > 20 MB streams) for bytes, seekable and non-seekable file, BytesIO and socket sources (FIN; separately RST, stall+timeout, disk EIO), also after the buffer trim (threshold knob). Termination is decided deterministically by the simulated source (9th read after EOF is fatal, item cap, CPU-time backstop -> kind=hang), the yielded list must equal a 15-line reference framing of the delivered bytes, and nothing but StopIteration (or the injected I/O error: the object, a chained exception, or an OSError of the same class and errno) may come out.'),
        note=("Crash points are exhaustive per enumerated workload; workloads (packet sizes, k, read size, chunking) are sampled. "
              "Warnings are not judged. Trusted: reference framer, CPython io."),
        technique=TECH + ": crash-point enumeration of the byte source (EOF/FIN/RST/timeout/EIO) with an EOF-read budget as "
                         "liveness oracle and a reference framer"),
    "C12": dict(
        level="exploration", design="4.4",
        text=('Seeded search over simulated space-link histories: per-APID instrument producers with their own 14-bit counters, a multiplexer, and a link that drops, duplicates, delays/reorders, flag-flips and count-jumps packets, restarts producers and may die at a drawn byte; plus direct histories (flag, APID, counter step per arrival, up to 60 arrivals, up to 48 APIDs with open groups, header bits varying between segments) and every history of length <= 4 over 4 flags x 2 APIDs x {in-sequence, gap}. Each arrival is stamped with its arrival index; the real packet_generator(combine_segmented_packets=True, secondary_header_bytes=0..8,100) consumes it through bytes / simulated disk / simulated socket. The sequence of outputs (raw_data) must be exactly what a 25-line per-APID reference model emits; warnings required by the model (orphan CONTINUATION/LAST, LAST closing a gapped group) are judged in the runs where outputs validate the attribution of warnings to arrivals.'),
        note=('Histories are sampled (exhaustive only up to length 4); outputs compared by raw_data with a header-only definition; a warning is any warnings.warn or WARNING-level library log record, never matched by text; when a library frames ahead of what it handles, warnings are unjudged and only the output sequence is.'),
        technique=TECH + ": seeded space-link fault histories (drop/dup/reorder/flag-flip/count-jump/producer restart) checked "
                         "per arrival against a per-APID reassembly reference model"),
    "C19": dict(
        level="exploration", design="4.6",
        text=("A recorder task writes n uniquely numbered (or deliberately byte-identical) packets to a simulated disk and may crash mid-write or append garbage; cli.open is the simulated disk's open (real BufferedReader over a raw device with drawn buffer size and short reads, and an EOF-read budget that decides non-termination deterministically). spp describe-packets and spp parse [--packet i] [--skip-header-bytes k] run through click's CliRunner. Exhaustive sweep in every run: n = 0..14, every index 0..n+1; seeded part: n up to 1100, indices -(n+3)..n+1, torn and garbage tails, 32-64 KiB packets, prefixes, chunking. Oracle: no traceback, termination, rows == expected header tuples (all if <= 10, else 5 + ellipsis + 5), parse shows exactly the indexed packet's counter or an out-of-range message."),
        note=("The row-selection sentence is a pure function of n and is swept exhaustively over the stated bound; what makes "
              "this a simulation target is termination/no-crash on every file incl. empty and torn ones. Output is parsed "
              "from rich's table (seven integer cells per row)."),
        technique=TECH + ": simulated disk behind cli.open (torn writes, short reads, EOF-read budget) driving the real CLI "
                         "through CliRunner; exhaustive n/index sweep plus seeded files"),
    "C16": dict(
        level="exploration", design="4.5",
        text=('Each run is one freshly forked process executing a seeded history of 2-12 operations over 1-3 generated XTCE documents: successful loads in any namespace convention (prefix of any name incl. non-ASCII, element-like and drawn NCNames; default namespace; none), comment placement and whitespace style, through str path / Path (few, re-used paths) / file object on a simulated disk / load_xml; failing loads injected as faults (malformed XML, file torn at a drawn byte, wrong xtce_ns_prefix, dangling parameterRef, unsupported type, disk I/O error mid-document); and uses of earlier definitions between loads. The history is drawn first, every baseline is computed in its own pristine child, then the history runs: each successful load (and each later use of its result) is compared with the canonical rendering loaded first (fingerprint + decode of a fixed probe-packet set) and with the same bytes loaded first (namespace bookkeeping + serialisation); a document that does not load canonically must not load in any other spelling either.'),
        note=("The history half (process-wide class-level namespace state written by every load) is what the simulator owns; "
              "the spelling half rides on the same oracle. Documents come from a bounded generated family (<= 4 APID branches, "
              "two-level inheritance, nested containers, every parameter-type/encoding/calibrator/criteria reader). Both sides "
              "of the comparison are the library itself, so no decoder is re-implemented."),
        technique=TECH + ": seeded process histories of loads / failing loads / uses in a fresh fork per run, oracle = "
                         "load-it-first baseline from a pristine child"),
    "C11": dict(
        level="exploration", design="4.3",
        text=("Each run (one freshly forked process in which nothing is parsed before the interleaving starts) loads 1-2 generated XTCE documents, creates 1-6 packet generators with drawn options over bytes / simulated disk / simulated sockets on one shared event queue, and lets a seeded scheduler decide which generator receives each next(), when one is abandoned (close), when another document is loaded, when parse_ccsds_packet is called directly on the shared definition, and when one generator's own disk or link fails. Streams mix recognised, unknown-APID, ambiguous, two-level dead-end and wrong-length packets and, for combining generators, segment groups with foreign packets inside. Every generator's item sequence must equal the concatenation of what a fresh generator yields for each unit alone on a separately loaded definition (computed in pristine child processes, in stream order and in reverse order, which must agree); category facts known by construction are checked directly; yielded objects must not change later; fingerprint and serialisation of each shared definition must be unchanged."),
        note=("Both sides of the main comparison are the library; the property is that they agree. Packets whose stand-alone "
              "parse raises (which would end a generator; the statement is silent) are weeded out at plan time and counted, except that in a third of the runs ONE generator keeps such a packet as its last unit: it must die on it as the stand-alone parse does, and every other generator and later direct parse is judged in full (failure isolation). "
              "One thread: no pre-emption inside next()."),
        technique=TECH + ": seeded scheduler interleaving next()/close()/load/direct-parse over several generators sharing "
                         "definitions, oracle = each packet parsed alone on an untouched definition"),
}

PENDING = {
}

NA = {
    "C01": "the decoded result is a pure function of (document, packet bytes); no schedule, clock, fault or shared state occurs in the statement (the stream-facing parts are C02/C10/C11); it needs a reference decoder and input generation, not a simulator.",
    "C03": "pure function of (buffer, position, width); nothing to schedule or fail.",
    "C04": "pure function of the field's bits and the encoding attributes.",
    "C05": "pure function of (container tree, one packet); per-packet state lives in the packet object only.",
    "C06": "pure boolean evaluation over a value assignment.",
    "C07": "pure function of (encoding, packet bytes, earlier decoded values).",
    "C08": "pure arithmetic / table lookup on the raw value.",
    "C09": "pure function of the definition object; a single-threaded write then load with no I/O fault or interleaving in the statement.",
    "C13": "pure bit packing and unpacking.",
    "C14": "whether a packet is over- or under-consumed is a pure function of (definition, packet); the stream-level cousin (a truncated source handing the decoder a short packet) is decided under C10.",
    "C15": "repeated writes in one process with the header date pinned by the statement: the only nondeterminism sources a simulator could own (clock, hash seed) are fixed by the statement or constant within the process.",
    "C17": "pure function of the document text.",
    "C18": "pure function of (definition, file contents, file order); its file reads go through the framer whose I/O behaviour is C02/C10, and nothing in the statement depends on chunking, faults or order of execution.",
    "C20": "value semantics of immutable objects and of copy/pickle; pure.",
}


def main():
    extra_claimed = json.load(open(os.path.join(HERE, "tools", "claimed_extra.json"))) if os.path.exists(
        os.path.join(HERE, "tools", "claimed_extra.json")) else {}
    claimed = dict(CLAIMED)
    claimed.update(extra_claimed)
    checks = []
    for pid in sorted(claimed):
        c = claimed[pid]
        checks.append({
            "property_id": pid,
            "quick_cmd": f"./check {pid} quick",
            "thorough_cmd": f"./check {pid} thorough",
            "evidence_file": f"/verif/evidence/{pid}.json",
            "replay_cmd_template": f"./check {pid} --replay {{path}}",
            "engine": "sim",
            "level_claimed": {"category": c["level"], "text": c["text"], "design_ref": "DESIGN.md section " + c["design"]},
            "level_note": c["note"],
            "technique": c["technique"],
        })
    na = [{"property_id": k, "reason": v} for k, v in sorted(NA.items())]
    for pid in ("C11", "C12", "C16", "C19"):  # not yet claimed ones only
        if pid not in claimed:
            na.append({"property_id": pid, "reason": "simulation target (see DESIGN.md section 4); its check is still under "
                                                      "construction in this commit and is therefore not claimed yet."})
    na.sort(key=lambda d: d["property_id"])
    doc = {
        "version": 1,
        "setup_cmd": "./setup.sh",
        "hooks": {
            "guard": "SPACE_PACKET_PARSER_VERIF",
            "enable": "no hook exists in /repo: every seam is an existing argument or module attribute (binary_data argument, "
                      "packets.time, cli.open); the checks import the working tree of /repo directly (VERIF_REPO overrides)",
            "baseline_off_cmd": "cd /repo && /venv/bin/python -m pytest -ra -q -p no:cacheprovider --timeout=900",
            "source_commits": [],
            "add_only": True,
        },
        "engines": [{
            "name": "sim", "path": "/verif/sim",
            "serves_properties": sorted(claimed),
            "kind_free_text": "single-process deterministic simulator: one seeded choice source (MT19937) decides workload, "
                              "schedule, delays, chunking and faults; discrete-event clock; simulated socket / raw disk / clock / "
                              "producers / space link; replay files are minimised choice lists; 16 forked workers",
        }],
        "checks": checks,
        "not_applicable": na,
        "notes": "Technique studied: deterministic simulation with fault injection. Properties that are pure functions of their "
                 "input are listed under not_applicable with the reason (DESIGN.md section 5). Env: VERIF_SEED, VERIF_JOBS, "
                 "VERIF_REPO, VERIF_CASES. Exit 2 = harness error (never a VIOLATION).",
    }
    with open(os.path.join(HERE, "MANIFEST.json"), "w") as f:
        json.dump(doc, f, indent=1)
    print("wrote MANIFEST.json with", len(checks), "checks,", len(na), "not_applicable")


if __name__ == "__main__":
    main()
