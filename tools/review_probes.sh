#!/bin/sh
# Re-runs the reviewers' probe patches (reviews/*.diff): property-preserving ones must PASS (rc=0), defect-bearing ones
# must be REPORTED (rc=1). Scratch worktrees only. ~100 minutes.
HERE="$(cd "$(dirname "$0")/.." && pwd)"
export VERIF_SHRINK_S=4
bad=0
run() {  # run <expect-rc> <patch> <cases> <ids...>
  exp=$1; patch=$2; cases=$3; shift 3
  for id in "$@"; do
    out=$("$HERE"/tools/try_mutant.sh "$HERE/reviews/$patch.diff" $cases $id 2>&1 | grep "^MUTANT")
    case "$out" in *"rc=$exp"*) echo "ok   $patch $id rc=$exp";; *) echo "FAIL $patch $id expected rc=$exp: $out"; bad=1;; esac
  done
}
run 0 A_fa1_from_time_import 4000 C02 C10
run 0 A_fa1b_perf_counter 4000 C02 C10
run 0 A_fa4_io_error_context 4000 C02 C10
run 0 A_fa5_recv_into 4000 C02 C10
run 0 A_fa2_oor_clickexception - C19
run 0 A_fa3_index_column - C19
run 1 A_bs1_named_const_plus_C10a1 - C10
run 1 A_bs4_listing_batches - C19
run 0 B_A1_eager_bytes - C12
run 0 B_A2_warning_mentions_stream_index 3000 C11
run 0 B_A3_private_lazy_index 2500 C11 C16
run 1 B_B1c_process_wide_quarantine 4000 C11
run 1 B_B1d_per_generator_quarantine 4000 C11
run 1 B_B2_two_ref_condition_positional 2500 C16
run 1 C_c1_seg_table_on_definition 20000 C12
run 1 C_b1_segment_count_cap - C12
run 1 C_b1b_combined_size_limit - C12
run 0 C_fa1_listing_box_simple - C19
run 0 C_fa2_max_items_default - C19
run 0 C_fa3_parse_json_output - C19
run 0 C_fa5_reworded_range_message - C19
run 0 C_fa4_progress_isatty 4000 C02 C10
run 0 C_c2d_both_eager_refactor_only 4000 C02 C10 C12
run 1 C_c2b_eager_setup_plus_seek_defect 4000 C10
run 1 C_c2c_both_eager_plus_seek_defect 4000 C10
run 0 D_A2_socket_error_is_eof 4000 C11
run 0 D_A3_warn_once_per_apid 4000 C11
run 1 D_B1_retransmission_filter 4000 C11
run 1 D_B2_types_memo_by_space_system_name 3000 C16
run 1 E_c1_socket_default_minus1 4000 C02 C10
run 0 E_c2_open_by_descriptor - C19
run 0 E_fa1_file_prefetch_topup 4000 C02 C10
run 0 E_fa1_file_prefetch_topup - C19
run 0 E_fa2_rawpacketdata_bytearray 4000 C02 C10
run 0 E_fa3_oor_message_via_logging - C19
run 0 E_fa4_parse_prints_header_then_packet - C19
run 0 E_fa5_ellipsis_row_single_cell - C19
run 1 E_b2_info_summary_guarded_by_isEnabledFor - C19
run 1 E_b2_info_summary_guarded_by_isEnabledFor 4000 C10
run 0 F_fa1_public_cached_property 2000 C11 C16
run 0 F_fa2_ambiguous_error_class 3000 C11
run 0 F_fa4_orphan_warning_once_per_apid 20000 C12
run 1 F_bs1_length_warning_rate_limit_32 - C11
run 1 F_bs2_skip_filter_uses_last_segment - C11
run 1 F_bs3_raw_child_iteration_float_string_enums - C16
run 1 F_bs4_root_container_name_stored_on_definition - C11
run 1 F_c1_negative_recv_size 3000 C02 C11
run 0 G_fa2_listing_hex_preview_column - C19
run 0 G_fa2b_seqflag_shown_with_name - C19
run 0 G_fa3_vertical_ellipsis_row - C19
run 0 G_fa3b_ellipsis_row_with_count - C19
run 1 G_bs1_silent_out_of_range - C19
run 1 G_bs2_out_of_range_ends_in_logged_traceback - C19
run 0 G_fa6_packets_module_becomes_package 3000 C02 C19
run 0 G_fa4_socket_getpeername_in_log 3000 C02 C10
run 0 G_fa7_headers_only_yields_ccsdspacket 3000 C02
run 0 G_fa5_iterator_class 3000 C02 C10
run 0 H_fa1_container_backrefs 600 C11 C16
run 0 H_fa2_ccsdspacket_userdict 1500 C11
run 0 H_fa3_framer_iterator_class_with_counters 20000 C12
run 0 H_fa5_file_prefetch_two_topups 40000 C12
run 1 H_bs1_public_parse_counter_on_dataclass 2000 C11
run 1 H_bs2b_dataclass_slots_plus_declared_counter 2000 C11
run 0 H_bs2a_dataclass_slots_only 600 C11 C16
run 0 H_probe_early_gap_detection - C12
run 0 I_fa1_cli_fstat_fileno 6000 C19
run 0 I_fa1b_cli_file_name_mode 6000 C19
run 0 I_fa2_torn_file_exit_status 6000 C19
run 0 I_fa3_status_line_with_ellipsis 6000 C19
run 1 I_b1_verbose_only_crash - C19
run 1 I_b3_cli_gzip_sniff - C19
run 1 I_b2_pkgsplit_plus_stale_fill 3000 C10 C02
run 1 I_c2_float_recv_size 1500 C02
run 0 I_p1_select_before_recv 2000 C02 C10
run 0 J_fa1_param_repr 1500 C11
run 0 J_fa2_schema_version_from_uri 1000 C16
run 1 J_bs1_cycle_guard_leaks_on_error - C11
run 1 J_bs2_continuity_mod_8192 40000 C12
exit $bad
