#!/bin/sh
# Re-runs the reviewers' probe patches (reviews/*.diff): property-preserving ones must PASS (rc=0), defect-bearing ones
# must be REPORTED (rc=1). Scratch worktrees only. ~25 minutes.
HERE="$(cd "$(dirname "$0")/.." && pwd)"
export VERIF_SHRINK_S=4
bad=0
run() {  # run <expect-rc> <patch> <cases> <ids...>
  exp=$1; patch=$2; cases=$3; shift 3
  for id in "$@"; do
    out=$("$HERE"/tools/try_mutant.sh "$HERE/reviews/$patch.diff" $cases $id 2>&1 | grep "^MUTANT")
    case "$out" in *"rc=$exp"*) echo "ok   $patch $id rc=$exp";; *) echo "FAIL $patch $id expected rc=$exp: $out"; bad=1;; esac
  done
}
run 0 A_fa1_from_time_import 4000 C02 C10
run 0 A_fa1b_perf_counter 4000 C02 C10
run 0 A_fa4_io_error_context 4000 C02 C10
run 0 A_fa5_recv_into 4000 C02 C10
run 0 A_fa2_oor_clickexception - C19
run 0 A_fa3_index_column - C19
run 1 A_bs1_named_const_plus_C10a1 - C10
run 1 A_bs4_listing_batches - C19
run 0 B_A1_eager_bytes - C12
run 0 B_A2_warning_mentions_stream_index 3000 C11
run 0 B_A3_private_lazy_index 2500 C11 C16
run 1 B_B1c_process_wide_quarantine 4000 C11
run 1 B_B1d_per_generator_quarantine 4000 C11
run 1 B_B2_two_ref_condition_positional 2500 C16
run 1 C_c1_seg_table_on_definition 20000 C12
run 1 C_b1_segment_count_cap - C12
run 1 C_b1b_combined_size_limit - C12
run 0 C_fa1_listing_box_simple - C19
run 0 C_fa2_max_items_default - C19
run 0 C_fa3_parse_json_output - C19
run 0 C_fa5_reworded_range_message - C19
run 0 C_fa4_progress_isatty 4000 C02 C10
run 0 C_c2d_both_eager_refactor_only 4000 C02 C10 C12
run 1 C_c2b_eager_setup_plus_seek_defect 4000 C10
run 1 C_c2c_both_eager_plus_seek_defect 4000 C10
run 0 D_A2_socket_error_is_eof 4000 C11
run 0 D_A3_warn_once_per_apid 4000 C11
run 1 D_B1_retransmission_filter 4000 C11
run 1 D_B2_types_memo_by_space_system_name 3000 C16
exit $bad
