#!/bin/sh
# usage: tools/soak.sh [seed] [ids...] ; thorough tier of every check, one after the other (hours).
HERE="$(cd "$(dirname "$0")/.." && pwd)"; cd "$HERE"
SEED=${1:-7}; shift 2>/dev/null
rc=0
for id in ${*:-C12 C10 C19 C02 C11 C16}; do
  VERIF_SEED=$SEED ./check $id thorough > /tmp/soak_$$.log 2>&1; r=$?
  grep -E "^selftest|^$id thorough|VIOLATION|^violation kind|HARNESS|warning: probe" /tmp/soak_$$.log | cut -c1-400 | sed "s/^/[$id rc=$r] /"
  [ $r -ne 0 ] && rc=1
  python3 - "$id" <<'PY'
import json,sys
d=json.load(open(f"evidence/{sys.argv[1]}.json"))["coverage"]
print("   faults:", d["faults_fired"]); print("   probes:", d["probes"]); print("   sim_time_s:", d["sim_time_s"], "runs/h:", d["runs_per_hour"], "schedules:", d["distinct_schedules"], "selftest:", d.get("determinism_selftest",{}).get("ok"))
PY
done
rm -f /tmp/soak_$$.log
exit $rc
