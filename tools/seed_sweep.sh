#!/bin/sh
# usage: tools/seed_sweep.sh <first_seed> <last_seed> [tier] [ids...] ; runs every check under several VERIF_SEED values.
# Writes evidence into the working copy it runs in (use from a vp-run snapshot, not to produce committed evidence).
HERE="$(cd "$(dirname "$0")/.." && pwd)"
cd "$HERE"
A=$1; B=$2; TIER=${3:-quick}; shift 3 2>/dev/null
IDS=${*:-C02 C10 C11 C12 C16 C19}
rc=0
s=$A
while [ "$s" -le "$B" ]; do
  for id in $IDS; do
    VERIF_SEED=$s VERIF_SKIP_SELFTEST=${SKIP_SELFTEST:-1} ./check $id $TIER > /tmp/sweep_$$.log 2>&1
    r=$?
    tail -1 /tmp/sweep_$$.log | sed "s/^/seed=$s rc=$r /"
    if [ $r -ne 0 ]; then rc=1; grep -E "VIOLATION|violation kind|HARNESS" /tmp/sweep_$$.log | cut -c1-600; fi
  done
  s=$((s+1))
done
rm -f /tmp/sweep_$$.log
exit $rc
