#!/bin/sh
# usage: tools/mutant_matrix.sh [seeded-dir-glob] ; runs every check (quick) against every seeded change and prints
# one line per (change, check): rc=1 means the check reports a violation on the changed tree.
HERE="$(cd "$(dirname "$0")/.." && pwd)"
export VERIF_SHRINK_S=${VERIF_SHRINK_S:-8}
for d in "$HERE"/seeded/${1:-*}/; do
  [ -f "$d/patch.diff" ] || continue
  ids="${IDS:-C02 C10 C11 C12 C16 C19}"
  if [ "${OWN:-0}" = "1" ]; then ids=$(basename "$d" | cut -c1-3); fi      # OWN=1: only the check of the change's own property
  for id in $ids; do
    "$HERE"/tools/try_mutant.sh "$d/patch.diff" - $id 2>&1 | grep "^MUTANT" | sed "s#^MUTANT [^ ]*#MATRIX $(basename $d)#" | cut -c1-220
  done
done
