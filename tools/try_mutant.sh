#!/bin/sh
# usage: tools/try_mutant.sh <patch.diff> <cases-or-"-"> <ID> [ID...]
# Applies the patch to a scratch worktree of /repo (outside /repo and /verif), runs the named checks
# against it through VERIF_REPO, prints one line per check, removes the worktree. Evidence goes to a scratch
# directory (VERIF_EVIDENCE_DIR), so this never changes what is committed.
HERE="$(cd "$(dirname "$0")/.." && pwd)"
PATCH="$1"; CASES="$2"; shift 2
WT="$(mktemp -d /tmp/verif_mut_XXXXXX)"
rmdir "$WT"
git -C /repo worktree add -q "$WT" HEAD || exit 2
if ! git -C "$WT" apply "$PATCH"; then echo "PATCH-DOES-NOT-APPLY $PATCH"; git -C /repo worktree remove --force "$WT"; exit 2; fi
export VERIF_EVIDENCE_DIR="$WT/.verif_evidence"
export VERIF_OUT_DIR="$WT/.verif_out"
for id in "$@"; do
  if [ "$CASES" != "-" ]; then export VERIF_CASES="$CASES"; fi
  VERIF_REPO="$WT" VERIF_SKIP_SELFTEST=1 timeout 1800 "$HERE"/check "$id" quick > "$WT/.verif_log" 2>&1
  rc=$?
  kinds=$(grep -E "^violation kind=" "$WT/.verif_log" | sed 's/^violation kind=\([a-z_A-Z]*\).*/\1/' | tr '\n' ',' )
  echo "MUTANT $(basename "$(dirname "$PATCH")")/$(basename "$PATCH") check=$id rc=$rc kinds=$kinds $(tail -1 "$WT/.verif_log" | grep -o 'wall=[0-9.]*s')"
  if [ "${VERBOSE:-0}" = "1" ]; then grep -E "^violation kind=|HARNESS" "$WT/.verif_log" | cut -c1-500; fi
  if [ $rc -ne 0 ] && [ $rc -ne 1 ]; then tail -5 "$WT/.verif_log" | cut -c1-400; fi
done
git -C /repo worktree remove --force "$WT"
