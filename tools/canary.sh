#!/bin/sh
# Sensitivity regression for the harness itself: one seeded change per property must be REPORTED (exit 1 from the
# check) and one behaviour-preserving refactor per property must PASS. Uses scratch worktrees only. ~6 minutes.
HERE="$(cd "$(dirname "$0")/.." && pwd)"
export VERIF_SHRINK_S=5
bad=0
for pair in C02:C02b-1 C10:C10a-3 C11:C11b-3 C12:C12a-1 C16:C16b-3 C19:C19c-1; do
  id=${pair%%:*}; m=${pair##*:}
  out=$("$HERE"/tools/try_mutant.sh "$HERE/seeded/$m/patch.diff" - $id 2>&1 | grep "^MUTANT")
  case "$out" in *"rc=1"*) echo "ok   seeded $m reported by $id";; *) echo "FAIL seeded $m NOT reported by $id: $out"; bad=1;; esac
done
for pair in C02:R02-2 C10:R10-3 C11:R11-1 C12:R12-3 C16:R16-2 C19:R19-1; do
  id=${pair%%:*}; m=${pair##*:}
  out=$("$HERE"/tools/try_mutant.sh "$HERE/refactors/$m/patch.diff" - $id 2>&1 | grep "^MUTANT")
  case "$out" in *"rc=0"*) echo "ok   refactor $m passes $id";; *) echo "FAIL refactor $m flagged by $id: $out"; bad=1;; esac
done
exit $bad
