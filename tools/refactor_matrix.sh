#!/bin/sh
# usage: tools/refactor_matrix.sh [refactors-dir-glob] ; runs every behaviour-preserving change under refactors/ against the
# check of its property (quick size) and against the other five checks (OTHERS_CASES, default 1500 cases each).
# Every line must say rc=0; exit 1 if any check reports a violation (a false alarm) or fails.
HERE="$(cd "$(dirname "$0")/.." && pwd)"
export VERIF_SHRINK_S=${VERIF_SHRINK_S:-8}
bad=0
for d in "$HERE"/refactors/${1:-*}/; do
  [ -f "$d/patch.diff" ] || continue
  n=$(basename "$d"); own=C$(echo "$n" | cut -c2-3)
  others=$(echo "C02 C10 C11 C12 C16 C19" | sed "s/$own//")
  for line in "$("$HERE"/tools/try_mutant.sh "$d/patch.diff" - $own 2>&1 | grep "^MUTANT")" \
              "$(VERBOSE=1 "$HERE"/tools/try_mutant.sh "$d/patch.diff" ${OTHERS_CASES:-1500} $others 2>&1 | grep -E "^MUTANT|^violation")"; do
    echo "$line" | sed "s#^MUTANT [^ ]*#REFACTOR $n#" | cut -c1-300
    case "$line" in *"rc=1"*|*"rc=2"*|*"rc=124"*) bad=1;; esac
  done
done
exit $bad
