"""C10 -- framing terminates on every finite source and yields only complete packets.

Simulated: the producer / link / recorder dies at byte offset c of a stream S. The file on
the simulated disk holds S[:c]; the socket delivers S[:c] and then FIN (separate
configuration: RST, or a stall against a receive timeout, or a disk EIO); the bytes object
is S[:c]. For small streams *every* c in 0..len(S) is run (fault enumeration: the case asks
the runner to enumerate its 'cut' choice); longer streams draw cut points biased to packet
and header boundaries. S is a valid stream, a valid stream with flipped bytes, or random bytes.
"""
import io
import sys
import warnings

from sim import factory
from sim.choices import payload
from sim.kernel import (ClockSeam, library_exception, LivenessViolation, NullOut, Pipe, SimClock, SimDeadlock, SimRaw, SimSocket,
                        StepBudgetExceeded, World)
from sim.runner import Outcome

ID = "C10"
LEVEL = "fault_enumeration"
RUN_WALL_S = 150
TIERS = {
    "quick": {"cases": 16000, "episode": 50, "selftest": 32, "wall_cap_s": 600, "shrink_s": 45},
    "thorough": {"cases": 600_000, "episode": 100, "selftest": 256, "wall_cap_s": 3 * 3600, "shrink_s": 120},
}
RULE = ("a case draws a workload (stream kind, 1-6 small packets or a longer stream, prefix k, source kind, consumer, "
        "read size, chunking) and, for streams <= 160 bytes, the runner enumerates EVERY cut offset 0..len(S) of that "
        "workload (otherwise the cut is drawn near packet/header boundaries); evaluations counts individual "
        "(workload, cut) runs; non-trivial = some bytes were delivered AND (the cut is strictly inside the stream or "
        "an I/O error was injected or the bytes are not a valid stream); distinct = distinct choice lists")
COMPONENTS = {
    "real": ["space_packet_parser.packets.ccsds_generator", "XtcePacketDefinition.packet_generator (headers-only and "
             "with a loaded header-only XTCE definition)", "io.BufferedReader", "io.BytesIO"],
    "stub": ["SimRaw raw disk device (EOF-read budget, injected EIO)", "SimSocket.recv over a simulated byte pipe "
             "(FIN, RST, stall + timeout on simulated time)", "producer task that dies at the cut", "SimClock",
             "clone of ccsds_generator with the 20 MB trim constant replaced by 7 / 64 / 1000 (knob; genuine constant kept in 1 of 4 runs)"],
}
ASSUMPTIONS = [
    "termination is decided by the simulated source: the 9th read/recv after end-of-stream is fatal, plus an item cap "
    "of len(S)//7+2 and a CPU-time backstop for a spin that neither reads nor yields",
    "warnings are not judged",
    "under an injected I/O error the generator may either raise that exception (the object itself, an exception chained "
    "to it, or an OSError of the same class and errno) or stop; what it yielded "
    "before must be a prefix of the reference framing of the bytes delivered so far",
    "cut offsets are exhaustive per enumerated workload; workloads are sampled",
]
DEGRADED_PROBES = ("trim_knob_unavailable", "clock_seam_unavailable")
EXPECTED_PROBES = ("eof_at_boundary", "eof_in_prefix", "eof_in_header", "eof_in_body", "empty_source", "sock_fin",
                   "sock_rst", "sock_stall_timeout", "disk_eio", "garbage_bytes", "trim_taken_before_cut", "huge_packet", "non_seekable_file", "genuine_20MB_stream")
ENUM_LIMIT = 160
BIG_DEN = 30_000


def systematic():
    """Cases 0..3: genuine > 20 MB streams cut near the end: bytes, file, socket, non-seekable file."""
    cum, starts = 0, {}
    for wt, name in [(4, "bytes"), (5, "file"), (2, "bytesio"), (6, "socket"), (2, "pipefile")]:
        starts[name] = cum
        cum += wt
    return [[BIG_DEN - 1, starts[n_]] for n_ in ("bytes", "file", "socket", "pipefile")]

_packets = factory.import_library()          # import only
from space_packet_parser.xtce.definitions import XtcePacketDefinition  # noqa: E402

_defn_empty = None
_defn_hdr = None


def setup_process():
    global _defn_empty, _defn_hdr
    _defn_empty = XtcePacketDefinition()
    _defn_hdr = factory.load_header_only_definition()


def same_io_error(e, injected):
    """The injected source failure came out of the generator: the object itself, or an exception chained to it
    (raise ... from err / implicit context), or a re-raised OSError of the same class and errno with more context."""
    seen = 0
    x = e
    while x is not None and seen < 8:
        if x is injected:
            return True
        x = x.__cause__ or x.__context__
        seen += 1
    return isinstance(e, OSError) and isinstance(e, type(injected)) and getattr(e, "errno", None) == getattr(injected, "errno", None)


def run(ch, render=False):
    out = Outcome()
    w = World(ch, max_steps=100_000)
    pk = _packets
    big = ch.chance(1, BIG_DEN, "big")          # a genuine > 20 MB stream that dies near its end (cases 0..3, and rarely later)
    src = ch.weighted([(4, "bytes"), (5, "file"), (2, "bytesio"), (6, "socket"), (2, "pipefile")], "source")
    consumer = ch.weighted([(3, "ccsds_generator"), (1, "packet_generator_headers_only"),
                            (2, "packet_generator_parsed")], "consumer")
    k = ch.weighted([(8, 0), (1, 1), (1, 4), (1, 6), (1, 7), (1, 11), (1, 5), (1, 2), (1, 12), (1, 13), (1, 64), (1, 300)], "k")
    rs = ch.pick((None, 1, 2, 3, 5, 6, 7, 8, 13, 4096, 65536, 9, 10, 11, 12, 16, 64, 100, 1000), "read_size")
    progress = ch.chance(1, 8, "progress")
    skind = ch.weighted([(6, "valid"), (2, "flipped"), (1, "random")], "stream_kind")
    long_ = ch.chance(1, 6, "long")
    # swarm knob: the buffer-trim threshold (20 MB in the shipped code) replaced by a small value in a clone of
    # ccsds_generator, so that the trim branch is taken before the crash point
    knob = ch.pick((None, 7, 64, 1000), "trim")
    if big:
        knob, progress, skind, long_ = None, False, "valid", True
        k = 0 if k > 16 else k
        rs = ch.pick((65536, None, 1 << 20), "big_read_size")
    # error-injection configuration is separate from plain truncation (and counted separately)
    inject = "none"
    if src == "socket":
        inject = ch.weighted([(6, "none"), (1, "rst"), (1, "stall_timeout")], "inject")
    elif src == "file":
        inject = ch.weighted([(7, "none"), (1, "eio")], "inject")

    # ---- the stream S ---------------------------------------------------------------------
    pkts = []
    if skind == "random":
        sub = ch.draw(1 << 32, "rand_bytes")
        stream = payload(sub, ch.draw(65, "rand_len"))
        layout = []
    else:
        huge = long_ and ch.chance(1, 8, "huge")
        if long_:
            n = 5 + ch.draw(20, "n")
            cap = 1500
        else:
            n = 1 + ch.draw(6, "n")
            cap = 18
        if big:
            body = payload(1 + ch.draw(1 << 16, "bigpayload"), 65536)
            for i in range(20_000_100 // (65542 + k) + 1):
                pkts.append(factory.build_packet(0, 0, 0, (i * 7) & 0x7FF, 3, i & 0x3FFF, body))
            n = 2 + ch.draw(3, "big_tail")
            huge = False
            w.probe("genuine_20MB_stream")
        if huge:
            n = 1 + ch.draw(3, "n_huge")
            if isinstance(rs, int) and rs < 4096:
                rs = 65536                      # byte-wise refills of a 64 KiB packet cost quadratic time and prove nothing more
        for i in range(n):
            if huge and (i == 0 or ch.chance(1, 2, "huge_i")):
                # data fields around half and full range of the 16-bit length field
                dl = ch.pick((32769, 32768, 32767, 65536, 65535, 40000), "huge_len")
                hdr = factory.draw_header(ch)
                pkts.append(factory.build_packet(*hdr, payload(1 + ch.draw(1 << 16, "huge_payload"), dl)))
                w.probe("huge_packet")
            else:
                pkts.append(factory.draw_packet(ch, None, allow_max=False, cap=cap))
        parts = []
        layout = []
        pos = 0
        psub = ch.draw(1 << 16, "prefix_bytes") if k else 0
        for i, p in enumerate(pkts):
            if k:
                parts.append(payload(psub + i, k) if psub else b"\xff" * k)
            parts.append(p)
            layout.append((pos, k, pos + k + len(p)))
            pos += k + len(p)
        stream = b"".join(parts)
        if skind == "flipped" and stream:
            ba = bytearray(stream)
            for _ in range(1 + ch.draw(3, "nflips")):
                i = ch.draw(len(ba), "flip_at")
                ba[i] ^= 1 + ch.draw(255, "flip_mask")
            stream = bytes(ba)
            w.fault("garbage_bytes")
    if skind == "random":
        w.fault("garbage_bytes")
    total = len(stream)

    # ---- the crash point ------------------------------------------------------------------
    if total <= ENUM_LIMIT:
        cut_pos = len(ch.rec)
        cut = ch.draw(total + 1, "cut")
        out.fanout = (cut_pos, total + 1)
    else:
        if big:
            s, kk, e = layout[len(layout) - 1 - ch.draw(min(4, len(layout)), "big_cut_pkt")]
            anchor = ch.pick((e, s, s + kk, s + kk + 6, (s + e) // 2), "cut_anchor")
            cut = max(0, min(total, anchor + ch.pick((0, -1, 1, -2, 2), "cut_delta")))
        elif layout and ch.chance(3, 4, "cut_near_boundary"):
            s, kk, e = layout[ch.draw(len(layout), "cut_pkt")]
            anchor = ch.pick((e, s, s + kk, s + kk + 6), "cut_anchor")
            cut = max(0, min(total, anchor + ch.pick((0, -1, 1, -2, 2), "cut_delta")))
        else:
            cut = ch.draw(total + 1, "cut")
    delivered = stream[:cut]
    if cut == 0:
        w.fault("empty_source")
    elif skind == "valid":
        where = "eof_in_body"
        for (s, kk, e) in layout:
            if cut == e:
                where = "eof_at_boundary"
                break
            if s <= cut < e:
                if cut < s + kk:
                    where = "eof_in_prefix" if cut > s else "eof_at_boundary"
                elif cut < s + kk + 6:
                    where = "eof_in_header"
                else:
                    where = "eof_in_body"
                break
        w.fault(where)
    expected, _consumed = factory.reference_frame(delivered, k)

    # ---- the source -----------------------------------------------------------------------
    sock = None
    raw = None
    pipe = None
    if src == "bytes":
        source = delivered
    elif src == "bytesio":
        source = io.BytesIO(delivered)
    elif src == "pipefile":
        # a finite, NON-seekable binary file object (pipe, FIFO, sys.stdin.buffer): a real BufferedReader over a
        # raw device that refuses seek()/tell()
        raw = SimRaw(w, delivered, seekable=False)
        source = io.BufferedReader(raw, buffer_size=(65536 if big else ch.pick((8192, 1, 7, 16, 4096), "bufsize")))
        w.probe("non_seekable_file")
    elif src == "file":
        bufsize = ch.pick((8192, 1, 7, 16, 4096), "bufsize")
        if big:
            bufsize = 65536
        fail_at = None
        if inject == "eio":
            fail_at = ch.draw(6, "eio_at")
        raw = SimRaw(w, delivered, fail_at=fail_at)
        source = io.BufferedReader(raw, buffer_size=bufsize)
    else:
        pipe = Pipe(w)
        wsizes = ch.pick(("all", "packets", "drawn"), "wsizes")
        take_mode = ch.pick(("all", "drawn", "one"), "take")
        if big:
            wsizes, take_mode = "packets", "all"        # 20 MB byte by byte would take minutes and prove nothing more
        rst_after = ch.draw(cut + 1, "rst_after") if inject == "rst" else None

        def producer():
            o = 0
            if wsizes == "all":
                cuts = [cut]
            elif wsizes == "packets":
                cuts = [e for (_, _, e) in layout if e < cut] + [cut]
            else:
                cuts = []
                c = 0
                while c < cut:
                    c += 1 + ch.draw(min(cut - c, 400), "wlen")
                    cuts.append(c)
            for c in cuts:
                if rst_after is not None and c > rst_after:
                    c = rst_after
                if c > o:
                    yield ("send", pipe, delivered[o:c])
                    o = c
                    if ch.chance(1, 3, "pdelay"):
                        yield ("sleep", ch.pick((1_000, 1_000_000, 2_000_000_000), "sleep"))
                if rst_after is not None and o >= rst_after:
                    break
            if inject == "rst":
                yield ("rst", pipe)
            elif inject == "stall_timeout":
                return          # the producer stalls for ever: no FIN
            else:
                yield ("fin", pipe)

        def take(avail, _m=take_mode):
            if _m == "all":
                return avail
            if _m == "one":
                return 1
            return 1 + ch.draw(avail, "take_n")
        w.spawn("producer", producer())
        sock = SimSocket(w, pipe, take=take)
        if inject == "stall_timeout":
            sock.settimeout(3.0)
        source = sock

    # ---- run the consumer -------------------------------------------------------------------
    saved_stdout = sys.stdout
    seam = None
    if progress:
        seam = ClockSeam(pk, SimClock(w))
        seam.__enter__()
        if not seam.installed:
            w.probe("clock_seam_unavailable")
        sys.stdout = NullOut()
    got = []
    err = None
    stopped = False
    trim = None
    cap_items = total // 7 + 2
    try:
        with warnings.catch_warnings():
            warnings.simplefilter("ignore")
            kwargs = dict(buffer_read_size_bytes=rs, show_progress=progress, skip_header_bytes=k)
            # the knob stays installed for the whole run: packet_generator looks the framer up (as the module
            # attribute packets.ccsds_generator) only when it is first advanced
            trim = factory.TrimKnob(pk, knob)
            trim.__enter__()
            if trim.active and any(s_ > knob for (s_, _k, _e) in layout[1:] if s_ < cut):
                w.probe("trim_taken_before_cut")
            if knob is not None and not trim.active:
                w.probe("trim_knob_unavailable")
            gen = None
            try:
                # creation is inside the try as well: a library whose set-up runs eagerly may raise here already
                if consumer == "ccsds_generator":
                    gen = pk.ccsds_generator(source, **kwargs)
                elif consumer == "packet_generator_headers_only":
                    gen = _defn_empty.packet_generator(source, ccsds_headers_only=True, **kwargs)
                else:
                    gen = _defn_hdr.packet_generator(source, **kwargs)
                w.ev("consumer", "start", src, consumer)
                while True:
                    if len(got) >= cap_items:
                        err = ("too_many_items", f"more than {cap_items} items from {total} bytes")
                        break
                    item = next(gen)
                    got.append(item)
                    if raw is not None:
                        raw.eof_reads = 0        # progress: the end-of-stream poll budget counts polls WITHOUT progress
                    if pipe is not None:
                        pipe.eof_reads = 0
                    w.ev("consumer", "item")
            except StopIteration:
                stopped = True
            except (LivenessViolation, SimDeadlock, StepBudgetExceeded) as e:
                err = (type(e).__name__, str(e))
            except Exception as e:
                library_exception(e)
                err = ("exception", e)
            finally:
                try:
                    if gen is not None:
                        gen.close()
                except Exception:
                    pass
    finally:
        if trim is not None:
            trim.__exit__(None, None, None)
        if seam is not None:
            seam.__exit__(None, None, None)
        sys.stdout = saved_stdout
        if sock is not None:
            sock.close()

    # ---- oracle ---------------------------------------------------------------------------
    def raw_of(item):
        r = getattr(item, "raw_data", None)
        return bytes(r) if r is not None else bytes(item)

    desc = (f"src={src} consumer={consumer} k={k} read_size={rs} stream={skind} len={total} cut={cut} "
            f"inject={inject} progress={progress}")
    sig_base = f"{src}|{consumer}"
    injected_exc = None
    if sock is not None and sock.raised is not None:
        injected_exc = sock.raised
    if raw is not None and raw.raised is not None:
        injected_exc = raw.raised
    if inject == "rst" and injected_exc is not None:
        w.fault("sock_rst")
    elif inject == "stall_timeout" and injected_exc is not None:
        w.fault("sock_stall_timeout")
    elif inject == "eio" and injected_exc is not None:
        w.fault("disk_eio")
    if pipe is not None and pipe.fin:
        w.fault("sock_fin")

    try:
        got_raw = [raw_of(g) for g in got]
    except Exception as e:
        got_raw = None
        out.fail("wrong_type", f"yielded item is not bytes-like: {e} ({desc})", sig_base + "|wrong_type")

    if out.violation is None:
        if err is not None and err[0] == "exception" and injected_exc is not None and same_io_error(err[1], injected_exc):
            # the injected I/O error itself came out: narrow relaxation -> prefix of reference framing so far
            so_far = delivered[:pipe.delivered] if pipe is not None else delivered
            exp_so_far, _ = factory.reference_frame(so_far, k)
            if got_raw != exp_so_far[:len(got_raw)]:
                out.fail("wrong_items_before_error",
                         f"items yielded before the injected {type(injected_exc).__name__} are not a prefix of the "
                         f"reference framing ({desc})", sig_base + "|wrong_items_before_error")
        elif err is not None:
            kind, e = err
            if kind == "exception":
                out.fail("exception", f"{type(e).__name__}: {e} after {len(got)} items ({desc})",
                         f"{sig_base}|exception|{type(e).__name__}")
            elif kind == "LivenessViolation":
                out.fail("does_not_terminate", f"{e} after {len(got)} items ({desc})", sig_base + "|does_not_terminate")
            elif kind == "too_many_items":
                out.fail("does_not_terminate", f"{e} ({desc})", sig_base + "|does_not_terminate")
            elif kind == "SimDeadlock":
                out.fail("blocked_for_ever", f"{e} after {len(got)} items ({desc})", sig_base + "|blocked")
            else:
                out.fail("step_budget", f"{e} ({desc})", sig_base + "|step_budget")
        elif injected_exc is not None:
            # library swallowed the injected error and stopped: allowed; items must still be a prefix
            so_far = delivered[:pipe.delivered] if pipe is not None else delivered
            exp_so_far, _ = factory.reference_frame(so_far, k)
            if got_raw != exp_so_far[:len(got_raw)]:
                out.fail("wrong_items_before_error", f"items yielded are not a prefix of the reference framing ({desc})",
                         sig_base + "|wrong_items_before_error")
        else:
            if got_raw != expected:
                # describe the first difference
                i = 0
                while i < len(got_raw) and i < len(expected) and got_raw[i] == expected[i]:
                    i += 1
                if i < len(got_raw) and i >= len(expected):
                    what = (f"item {i} of {len(got_raw[i])} bytes yielded although only {len(expected)} complete packets "
                            f"fit in the {len(delivered)} delivered bytes")
                    kind = "incomplete_or_extra_item"
                elif i >= len(got_raw):
                    what = f"only {len(got_raw)} items, {len(expected)} complete packets were delivered"
                    kind = "missing_item"
                else:
                    what = f"item {i} differs: got {got_raw[i][:16].hex()} ({len(got_raw[i])}B), expected {expected[i][:16].hex()} ({len(expected[i])}B)"
                    kind = "wrong_item"
                out.fail(kind, f"{what} ({desc})", f"{sig_base}|{kind}")
            elif not stopped:
                out.fail("does_not_terminate", f"no StopIteration ({desc})", sig_base + "|does_not_terminate")

    out.log = w.log
    out.faults = w.faults
    out.probes = w.probes
    out.sim_ns = w.now
    out.nontrivial = cut > 0 and (cut < total or inject != "none" or skind != "valid")
    if render:
        out.sample = {
            "source": src, "consumer": consumer, "skip_header_bytes": k, "read_size": rs, "stream_kind": skind,
            "packet_lengths": [len(p) for p in pkts][:12], "stream_bytes": total, "cut": cut, "inject": inject,
            "show_progress": progress, "expected_items": len(expected), "got_items": len(got),
            "events": [list(map(str, e[2:])) for e in w.log[:30]],
            "result": out.violation or "ok",
        }
    return out
