"""C19 -- CLI listings show each packet once, in order, and never hang or crash.

Simulated: a recorder task writes n factory packets (unique sequence counts, so every printed row
is attributable to one packet) to the simulated disk and may crash mid-write (torn tail). The CLI
is the one place where the library opens files itself: ``space_packet_parser.cli.open`` is
shadowed by the simulated-disk ``open`` (a real io.BufferedReader over SimRaw: short raw reads,
drawn buffer size, EOF-read budget as liveness oracle). Commands run through click's CliRunner:
``describe-packets FILE`` and ``parse FILE XTCE [--packet i] [--skip-header-bytes k]``.

The first 150 cases are the exhaustive sweep the property names: n = 0..14 listings and every
packet index 0..n+1 for each n. Later cases are seeded: larger n, torn tails, skip prefixes,
buffer sizes, short reads.
"""
import io
import logging
import os
import re
import tempfile
import warnings

from sim import factory
from sim.choices import payload
from sim.kernel import library_exception, LivenessViolation, SimRaw, StepBudgetExceeded, World
from sim.runner import Outcome

ID = "C19"
LEVEL = "exploration"
RUN_WALL_S = 90
N_SWEEP = 14
TIERS = {
    "quick": {"cases": 24000, "episode": 100, "selftest": 48, "wall_cap_s": 600, "shrink_s": 45},
    "thorough": {"cases": 2_000_000, "episode": 500, "selftest": 512, "wall_cap_s": 3 * 3600, "shrink_s": 120},
}
RULE = ("cases 0..149 are the exhaustive sweep: for every n in 0..14 one describe-packets listing and one parse --packet i "
        "for every i in 0..n+1 (complete files, k=0); later cases draw, from one seed, n (0..14, sometimes up to 60), the "
        "command, the index (0..n+1 or none), skip-header-bytes, a torn tail (recorder crash at a drawn byte of the last "
        "packets), BufferedReader buffer size and short raw reads; non-trivial = n >= 1 or the file is torn; distinct = "
        "distinct choice lists")
COMPONENTS = {
    "real": ["space_packet_parser.cli (spp describe-packets, spp parse) through click.testing.CliRunner", "rich table / pretty "
             "rendering", "ccsds_generator, XtcePacketDefinition.from_xtce + packet_generator", "io.BufferedReader",
             "a real temp file with the same content (click checks that the path exists)"],
    "stub": ["simulated disk: cli.open -> BufferedReader over SimRaw (short reads, EOF-read budget)",
             "recorder task that crashes mid-write (torn tail)"],
}
ASSUMPTIONS = [
    "a listing row is an output line whose tokens (box-drawing characters and ANSI sequences removed) are >= 7 integers "
    "(the seven header values must appear among them in order; further integer columns are tolerated) or all ellipses; "
    "the rendering environment is pinned (COLUMNS=200, NO_COLOR); header values must be printed as decimal integers",
    "parse output is read by field name (SRC_SEQ_CTR / PKT_APID followed by the value), whatever the quoting; for parse "
    "without an index only 'what is printed comes from the file, in order' is required; the out-of-range answer must be "
    "some non-empty message that shows no packet (its wording is not judged)",
    "the XTCE definition given to 'parse' is the seven CCSDS header fields (committed as models/header_only.xml); every "
    "packet carries a unique SRC_SEQ_CTR (except in the repeated-packet files, where some or all packets are byte-identical "
    "and rows are attributable by position only) so 'shows that packet' means exactly that counter and no other appears",
    "a negative index within -n..-1 may either count from the end or be answered as out of range; below -n it must be "
    "answered as out of range; files hold up to 1100 packets",
    "the exit status is judged only for listings and valid indices (must be 0); the out-of-range answer may use any exit "
    "status and either output stream, but never a traceback",
    "torn files: the listing must equal the reference framing of the bytes present; termination and absence of a "
    "traceback are required on every file",
    "if cli.py stops using the builtin open() the simulated disk is bypassed (probe sim_disk_used drops to 0) and the real "
    "temp file with identical content is read instead; the row oracle is unaffected",
]
EXPECTED_PROBES = ("magic_first_packet", "sim_disk_used", "n_eq_0", "n_eq_10", "n_eq_11", "index_eq_n", "index_gt_n", "index_last", "torn_tail",
                   "short_raw_read", "listing_elided", "listing_full", "repeated_packet", "garbage_tail", "huge_packet", "index_negative_beyond", "index_negative_inside",
                   "parse_with_body_definition", "packet_shorter_than_definition_needs")

XTCE_PATH = os.path.join(os.path.dirname(os.path.dirname(os.path.abspath(__file__))), "models", "header_only.xml")

os.environ.update(COLUMNS="200", LINES="60", NO_COLOR="1", TERM="dumb")
for _v in ("FORCE_COLOR", "CLICOLOR_FORCE", "JUPYTER_COLUMNS", "JUPYTER_LINES"):
    os.environ.pop(_v, None)
_packets = factory.import_library()
from click.testing import CliRunner  # noqa: E402
from space_packet_parser import cli as _cli  # noqa: E402

_SEP = re.compile("[│┃|]")
_CTR = re.compile(r"SRC_SEQ_CTR[^\w\n]{1,60}?(\d+)")   # 'SRC_SEQ_CTR': 5   "SRC_SEQ_CTR": 5   SRC_SEQ_CTR = 5   | SRC_SEQ_CTR |    5 |
_APID = re.compile(r"PKT_APID[^\w\n]{1,60}?(\d+)")
_OOR = re.compile(r"out[ -]of[ -](range|bounds)|invalid (packet )?index|no such packet", re.I)


def systematic():
    """[mode=0 (sweep), n, cmd (0 = describe, 1 = parse), index]"""
    out = []
    for n in range(N_SWEEP + 1):
        out.append([0, n, 0, 0])
        for i in range(n + 2):
            out.append([0, n, 1, i])
    return out


_ANSI = re.compile(r"\x1b\[[0-9;?]*[A-Za-z]")


_BOX = re.compile("[\u2500-\u257f|]")        # box-drawing characters and the ASCII bar
_LOGLINE = re.compile(r"\b(DEBUG|INFO|WARNING|ERROR|CRITICAL)\b")
_TRACEBACK = re.compile(r"Traceback \(most recent call last\)")


_ELLIPSES = ("...", "\u2026", "\u22ee", "\u22ef")


def parse_rows(text):
    """Data rows of the listing, however the table is drawn: after removing ANSI sequences and box-drawing characters, a
    line with >= 7 integer tokens is a data row (its integer tokens, in order; non-integer tokens such as a hex preview or
    a flag name are ignored), and a line with fewer than 7 integers that contains an ellipsis token is the ellipsis row."""
    rows = []
    for line in _ANSI.sub("", text).splitlines():
        cells = _BOX.sub(" ", line).split()
        ints = tuple(int(c) for c in cells if re.fullmatch(r"-?\d+", c))
        if len(ints) >= 7:
            rows.append(ints)
        elif any(c in _ELLIPSES or c.strip(".\u2026") == "" and len(c) >= 3 for c in cells) and not _LOGLINE.search(line):
            rows.append("...")
    # an ellipsis ROW stands between data rows; a line with an ellipsis before the first or after the last data row
    # ("Reading file ...", "done ...") is prose around the table
    while rows and rows[0] == "...":
        rows.pop(0)
    while rows and rows[-1] == "...":
        rows.pop()
    return rows


_INFO_RECORD = re.compile(r"^\s*(\[[^\]]{1,12}\])?\s*(DEBUG|INFO)\b")
_ANY_RECORD = re.compile(r"^\s*(\[[^\]]{1,12}\])?\s*(WARNING|ERROR|CRITICAL)\b")


def non_log_text(text):
    """The output without informational log records. A record is a line that starts (after an optional time stamp) with
    its level name, plus the indented continuation lines a long message is wrapped into."""
    keep = []
    in_record = False
    for line in text.splitlines():
        if _INFO_RECORD.match(line):
            in_record = True
            continue
        if _ANY_RECORD.match(line):          # a record of a higher level (its time stamp is omitted within the same second)
            in_record = False
            keep.append(line)
            continue
        if in_record and (not line.strip() or line[:1] in (" ", "\t")):
            continue
        in_record = False
        keep.append(line)
    return "\n".join(keep)


def row_matches(row, expected):
    """``expected`` (seven header values, or '...') appears in ``row``: equal, or an in-order subsequence of a wider row."""
    if expected == "..." or row == "...":
        return row == expected
    if len(row) == len(expected):
        return tuple(row) == tuple(expected)
    it = iter(row)
    return all(any(x == c for c in it) for x in expected)


def run_body(ch, w, out, render):
    """'Never a traceback, always terminates - on any file' with a definition that HAS a body: a drawn XTCE-family document
    and a file mixing packets its containers describe with too-short ones, over-long ones and unknown APIDs. Only
    termination and the absence of a traceback are judged here (what is shown depends on which packets the definition
    recognises, which is not this property's business)."""
    from sim import xtce_family as xf
    doc = xf.draw_doc(ch, tag="CLI")
    rd = xf.draw_rendering(ch) if ch.chance(1, 3, "cli_rendering") else dict(xf.CANONICAL)
    if rd["ns"] != "prefix" or rd["prefix"] != "xtce":
        rd = dict(xf.CANONICAL, comments=rd["comments"], ws=rd["ws"])       # the CLI has no option for another prefix
    n = ch.draw(9, "n")
    pkts, cats = [], []
    for j in range(n):
        cat = ch.weighted([(5, "leaf"), (3, "short"), (2, "unknown"), (1, "long"), (1, "header_only")], "cat")
        leaf = doc.leaves[ch.draw(len(doc.leaves), "leaf")]
        sub = ch.draw(1 << 16, "sub")
        p = xf.encode_packet(doc, leaf["chain"], leaf["apid"], leaf["fixed"], sub, count=700 + j)
        if cat == "short" and len(p) > 7:
            d = p[6:len(p) - 1 - (sub % max(1, len(p) - 7))]
            p = p[:4] + (len(d) - 1).to_bytes(2, "big") + d
        elif cat == "header_only":
            p = p[:4] + b"\x00\x00" + b"\x00"
        elif cat == "unknown":
            p = xf.encode_packet(doc, ["CCSDSPacket"], doc.unknown_apids[0], {}, sub, count=700 + j)
        elif cat == "long":
            d = p[6:] + payload(sub + 3, 1 + sub % 3)
            p = p[:4] + (len(d) - 1).to_bytes(2, "big") + d
        pkts.append(p)
        cats.append(cat)
    content = b"".join(pkts)
    index = None
    if ch.chance(2, 3, "with_index"):
        index = ch.draw(n + 2, "index")
    fd, path = tempfile.mkstemp(prefix="verif_c19_", suffix=".pkts")
    os.write(fd, content)
    os.close(fd)
    fd, xpath = tempfile.mkstemp(prefix="verif_c19_", suffix=".xml")
    os.write(fd, xf.render(doc, rd))
    os.close(fd)
    args = ["parse", path, xpath] + (["--packet", str(index)] if index is not None else [])
    w.ev("cli", "invoke_body", n, -1 if index is None else index, "".join(c[0] for c in cats))
    w.probe("parse_with_body_definition")
    if "short" in cats or "header_only" in cats:
        w.probe("packet_shorter_than_definition_needs")
    lib_logger = logging.getLogger("space_packet_parser")
    saved_log = (lib_logger.propagate, lib_logger.level)
    lib_logger.propagate, lib_logger.level = True, logging.NOTSET
    err = None
    result = None
    try:
        with warnings.catch_warnings():
            warnings.simplefilter("ignore")
            try:
                result = CliRunner().invoke(_cli.spp, args)
            except (LivenessViolation, StepBudgetExceeded) as e:
                err = str(e)
    finally:
        lib_logger.propagate = saved_log[0]
        lib_logger.setLevel(saved_log[1])
        os.unlink(path)
        os.unlink(xpath)
    desc = f"cmd=parse with a drawn XTCE document ({doc.name}), file of {n} packets [{' '.join(cats)}], index={index}"
    if err is not None:
        out.fail("does_not_terminate", f"{err} ({desc})", "parse_body|does_not_terminate")
    else:
        exc = result.exception
        if exc is not None and not isinstance(exc, SystemExit):
            library_exception(exc)
            out.fail("traceback", f"command ended in {type(exc).__name__}: {exc} ({desc})", f"parse_body|traceback|{type(exc).__name__}")
    out.log, out.faults, out.probes, out.sim_ns = w.log, w.faults, w.probes, w.now
    out.nontrivial = n >= 1
    out.sched = ("parse_body", n, index, tuple(cats))
    if render:
        out.sample = {"command": "parse (definition with a body)", "document": doc.name, "features": sorted(doc.features),
                      "packets": cats, "index": index, "exit_code": None if result is None else result.exit_code,
                      "output_head": (result.output[:400] if result is not None else ""), "result": out.violation or "ok"}
    return out


class _DiskFile(SimRaw):
    """The simulated disk file as ``open(path, 'rb')`` would return it: besides the simulated reads it has a name, a mode
    and a descriptor (of the real temporary file with the same content: fstat / mmap see what the reads deliver)."""
    real_path = None
    _fd = None

    def fileno(self):
        if self._fd is None:
            self._fd = os.open(self.real_path, os.O_RDONLY)
        return self._fd

    def close(self):
        if self._fd is not None:
            try:
                os.close(self._fd)
            except OSError:
                pass
            self._fd = None
        super().close()


def run(ch, render=False):
    out = Outcome()
    w = World(ch, max_steps=50_000)
    mode = ch.weighted([(1, "sweep"), (7, "normal"), (2, "body")], "mode")
    if mode == "body":
        return run_body(ch, w, out, render)
    sweep = mode == "sweep"
    if sweep:
        n = ch.draw(N_SWEEP + 1, "n")
        cmd = ("describe", "parse")[ch.draw(2, "cmd")]
        index = ch.draw(n + 2, "index") if cmd == "parse" else None
        k = 0
        torn = None
        bufsize = 8192
        short_mode = "full"
        hdr_seed = 0
        repeat = "unique"
        huge = False
    else:
        n = ch.weighted([(20, None), (2, 20), (2, 60), (1, 300), (1, 1100)], "n_kind")
        n = ch.draw(N_SWEEP + 1, "n") if n is None else 11 + ch.draw(n - 10, "n_big")
        cmd = ch.weighted([(3, "describe"), (4, "parse"), (1, "parse_all")], "cmd")
        index = ch.draw(n + 2, "index") if cmd == "parse" else None
        if index is not None and ch.chance(1, 6, "neg_index"):
            index = -1 - ch.draw(n + 3, "neg")           # -1 .. -(n+3): inside and beyond the Python range
        k = ch.weighted([(5, 0), (1, 4), (1, 1), (1, 7)], "k") if cmd != "describe" else 0
        torn = ch.chance(1, 3, "torn")
        bufsize = ch.pick((8192, 1, 7, 16, 4096, 100), "bufsize")
        short_mode = ch.pick(("full", "drawn", "one"), "short")
        hdr_seed = ch.draw(1 << 16, "hdr_seed")
        repeat = ch.weighted([(3, "unique"), (1, "some_repeats"), (1, "all_identical")], "repeat")
        huge = ch.chance(1, 25, "huge")          # some packets with a data field of 32768 bytes or more (length field >= 0x7FFF)
        if huge:
            bufsize, short_mode = 8192, "full"
    # the group options every command accepts (logging set-up): drawn in the non-sweep runs
    gopts = [] if sweep else list(ch.weighted([(7, ()), (2, ("-v",)), (1, ("-q",)), (1, ("--log-level", "DEBUG")),
                                               (1, ("--log-level", "WARNING"))], "group_opts"))
    magic = None if sweep else (ch.pick(factory.MAGICS, "magic") if ch.chance(1, 12, "magic_first") else None)

    # ---- the recorder writes n packets with unique counters -----------------------------------
    c0 = (hdr_seed * 37) % 16384 if hdr_seed else 500
    pkts = []
    for j in range(n):
        if hdr_seed:
            hb = payload(hdr_seed + j, 4)
            version, type_, shf, apid, flags = hb[0] & 7, hb[1] & 1, hb[1] >> 7, ((hb[2] << 8) | hb[3]) & 0x7FF, hb[0] >> 6
            dlen = 1 + (hb[1] >> 1) % 12
        else:
            version, type_, shf, apid, flags, dlen = 0, 0, 0, 100 + j, 3, 3
        if huge and (j == 0 or ch.chance(1, 3, "huge_j")):
            dlen = ch.pick((32768, 32769, 32767, 65536, 65535, 40000), "huge_len")
            w.probe("huge_packet")
        pkts.append(factory.build_packet(version, type_, shf, apid, flags, (c0 + j) % 16384, payload(hdr_seed + 99 + j, dlen)))
        # byte-identical packets are legal (idle / fill / retransmitted packets): rows are then attributable by
        # position only, and the listing must still show every one of them
        if repeat == "all_identical" and j:
            pkts[j] = pkts[0]
            w.probe("repeated_packet")
        elif repeat == "some_repeats" and j and ch.chance(1, 2, "rep"):
            pkts[j] = pkts[ch.draw(j, "rep_of")]
            w.probe("repeated_packet")
    if magic is not None and pkts:
        # the first packet's header values spell a file-format magic number (gzip, zip, a byte-order mark ...): a legal
        # packet file that content sniffing would mistake for something else. Its length field is untouched.
        pkts[0] = (magic + pkts[0][len(magic):4])[:4] + pkts[0][4:]
        w.probe("magic_first_packet")
    parts = []
    for p in pkts:
        if k:
            parts.append(b"\xA5" * k)
        parts.append(p)
    full = b"".join(parts)
    content = full
    if not sweep and not torn and ch.chance(1, 8, "garbage_tail"):
        # bytes that are not a packet after the last packet (a recorder that pads, or junk appended by a transfer):
        # whatever the reference framing makes of the bytes present is what must be listed; nothing may crash or hang
        g = payload(1 + ch.draw(1 << 16, "garbage_seed"), 1 + ch.draw(14, "garbage_len"))
        if ch.chance(1, 2, "garbage_ff"):
            g = b"\xff" * len(g)
        content = full + g
        w.fault("garbage_tail")
    if torn and full:
        # the recorder crashes while writing one of the last two packets (or anywhere)
        tail = len(parts[-1]) + (len(parts[-2]) if len(parts) > 1 and ch.chance(1, 3, "torn2") else 0)
        cutback = 1 + ch.draw(min(tail, len(full)), "torn_back")
        content = full[:len(full) - cutback]
        w.fault("torn_tail")
        w.ev("recorder", "crash", len(content), len(full))
    else:
        torn = None
        w.ev("recorder", "wrote", len(content))
    exp_pkts, _ = factory.reference_frame(content, k)
    m = len(exp_pkts)
    if n == 0:
        w.probe("n_eq_0")
    if m == 10:
        w.probe("n_eq_10")
    if m == 11:
        w.probe("n_eq_11")
    if index is not None and index < 0:
        w.probe("index_negative_beyond" if index < -m else "index_negative_inside")
    elif index is not None:
        if index == m:
            w.probe("index_eq_n")
        elif index > m:
            w.probe("index_gt_n")
        elif index == m - 1:
            w.probe("index_last")

    # ---- the simulated disk ------------------------------------------------------------------
    fd, path = tempfile.mkstemp(prefix="verif_c19_", suffix=".pkts")
    os.write(fd, content)
    os.close(fd)
    raws = []

    def short(possible, _m=short_mode):
        if _m == "full":
            return possible
        if _m == "one":
            w.fault("short_raw_read")
            return 1
        n_ = 1 + ch.draw(possible, "raw_n")
        if n_ < possible:
            w.fault("short_raw_read")
        return n_

    def sim_open(file, mode="r", *a, **kw):
        if isinstance(file, (str, bytes, os.PathLike)) and os.fspath(file) == path and "b" in mode and "r" in mode:
            w.probe("sim_disk_used")
            w.ev("disk", "open")
            raw = _DiskFile(w, content, short=short)
            raw.name, raw.mode = file, "rb"                  # what every file opened by path has
            raw.real_path = path
            raw.eof_budget = 8 + len(content) // 7        # the CLI consumes the whole file inside one call: polls at end-of-file
            raws.append(raw)                                 # are bounded by the number of packets the content can hold
            return io.BufferedReader(raw, buffer_size=bufsize)
        return open(file, mode, *a, **kw)

    args = gopts + (["describe-packets", path] if cmd == "describe" else ["parse", path, XTCE_PATH])
    if index is not None:
        args += ["--packet", str(index)]
    if k:
        args += ["--skip-header-bytes", str(k)]
    w.ev("cli", "invoke", cmd, n, -1 if index is None else index, k)

    err = None
    result = None
    # logging as users have it: the CLI configures the root logger itself (RichHandler on its console), and the library's
    # loggers propagate to it
    lib_logger = logging.getLogger("space_packet_parser")
    saved_log = (lib_logger.propagate, lib_logger.level)
    lib_logger.propagate, lib_logger.level = True, logging.NOTSET
    had_open = "open" in _cli.__dict__
    saved_open = _cli.__dict__.get("open")
    _cli.open = sim_open
    # every invocation starts with the root logger of a fresh process: logging.basicConfig() in the command group only
    # takes effect when the root logger has no handlers yet, so without this the first invocation's options would decide
    # for every later one in this process
    root = logging.getLogger()
    saved_root = (list(root.handlers), root.level, logging.root.manager.disable)
    for h_ in list(root.handlers):
        root.removeHandler(h_)
    root.setLevel(logging.WARNING)
    logging.disable(logging.NOTSET)
    try:
        with warnings.catch_warnings():
            warnings.simplefilter("ignore")
            try:
                result = CliRunner().invoke(_cli.spp, args)
            except (LivenessViolation, StepBudgetExceeded) as e:
                err = (type(e).__name__, str(e))
    finally:
        for h_ in list(root.handlers):
            root.removeHandler(h_)
        for h_ in saved_root[0]:
            root.addHandler(h_)
        root.setLevel(saved_root[1])
        logging.disable(saved_root[2])
        for r_ in raws:
            try:
                r_.close()
            except Exception:
                pass
        if had_open:
            _cli.open = saved_open
        else:
            del _cli.open
        lib_logger.propagate = saved_log[0]
        lib_logger.setLevel(saved_log[1])
        os.unlink(path)

    # ---- oracle ------------------------------------------------------------------------------
    desc = (f"cmd={cmd} n={n} complete={m} index={index} k={k} torn={'yes' if torn else 'no'} file_bytes={len(content)} "
            f"bufsize={bufsize} short={short_mode} options={' '.join(gopts) or '-'}")
    text = ""
    if err is not None:
        out.fail("does_not_terminate", f"{err[1]} ({desc})", f"{cmd}|does_not_terminate")
    else:
        try:
            text = result.stdout
        except Exception:
            text = result.output
        exc = result.exception
        if exc is not None and not isinstance(exc, SystemExit):
            library_exception(exc)            # an exception raised by harness code (e.g. inside sim_open) is not the CLI's
        try:
            text_all = result.output          # stdout and stderr: an error message may legitimately go to stderr
        except Exception:
            text_all = text
        oor_case = index is not None and (index >= m or index < -m)
        if exc is None or isinstance(exc, SystemExit):
            if _TRACEBACK.search(_ANSI.sub("", text_all)):
                exc = RuntimeError("a rendered traceback in the command's output")
                exc.sim_injected = True       # (constructed here only to carry the message; the traceback text is the CLI's)
        if exc is not None and not isinstance(exc, SystemExit):
            out.fail("traceback", f"command ended in {type(exc).__name__}: {exc} ({desc})", f"{cmd}|traceback|{type(exc).__name__}")
        elif result.exit_code != 0 and not oor_case and content == full:
            # the statement fixes no exit status for the out-of-range answer, nor for a file with a torn or padded tail
            # (tools commonly list what is there and still exit non-zero for damaged input): what is printed is judged
            # below in every case. For an intact file, a listing or a valid index that ends with a failure status has not
            # "shown" anything reliably
            out.fail("nonzero_exit", f"exit code {result.exit_code}; output tail: {text_all[-200:]!r} ({desc})", f"{cmd}|exit")
        elif cmd == "describe":
            rows = parse_rows(text)
            hdrs = [factory.header_tuple(p) for p in exp_pkts]
            if m <= 10:
                exp_rows = hdrs
                w.probe("listing_full")
            else:
                exp_rows = hdrs[:5] + ["..."] + hdrs[-5:]
                w.probe("listing_elided")
            if len(rows) != len(exp_rows) or not all(row_matches(r, e) for r, e in zip(rows, exp_rows)):
                i = 0
                while i < len(rows) and i < len(exp_rows) and row_matches(rows[i], exp_rows[i]):
                    i += 1
                got_i = rows[i] if i < len(rows) else "(nothing)"
                exp_i = exp_rows[i] if i < len(exp_rows) else "(nothing)"
                kind = "duplicate_rows" if len(rows) > len(exp_rows) else ("missing_rows" if len(rows) < len(exp_rows)
                                                                           else "wrong_rows")
                out.fail(kind, f"listing has {len(rows)} rows, expected {len(exp_rows)}; first difference at row {i}: got "
                               f"{got_i}, expected {exp_i} ({desc})", f"describe|{kind}")
        else:
            text = _ANSI.sub("", text)
            ctrs = [int(x) for x in _CTR.findall(text)]
            exp_ctrs = [factory.header_tuple(p)[5] for p in exp_pkts]
            if index is None:
                # the statement says nothing about parse without an index beyond "no traceback, terminates"; how many
                # packets are printed (--max-items) is a display choice. What is printed must come from the file, in order.
                it = iter(exp_ctrs)
                if not all(any(x == c for c in it) for x in ctrs):
                    out.fail("wrong_packets_shown", f"parse without an index printed counters {ctrs[:25]}, which is not an "
                                                    f"in-order selection of the file's {exp_ctrs[:25]} ({desc})", "parse_all|wrong")
            elif -m <= index < 0:
                # a negative index inside the Python range: the statement does not say whether it counts from the end or
                # is out of range; either answer is accepted (no traceback was already required above)
                if set(ctrs) not in (set(), {exp_ctrs[index]}):
                    out.fail("wrong_packet_shown", f"--packet {index} printed packets with counters {ctrs[:12]}; expected "
                                                   f"[{exp_ctrs[index]}] or an out-of-range message ({desc})", "parse|wrong_packet_neg")
            elif 0 <= index < m:
                if set(ctrs) != {exp_ctrs[index]}:
                    out.fail("wrong_packet_shown", f"--packet {index} printed packets with counters {ctrs[:12]}, expected "
                                                   f"exactly [{exp_ctrs[index]}] ({desc})", "parse|wrong_packet")
                else:
                    apids = [int(x) for x in _APID.findall(text)]
                    if set(apids) != {factory.header_tuple(exp_pkts[index])[3]}:
                        out.fail("wrong_packet_shown", f"--packet {index} printed APIDs {apids}, expected "
                                                       f"[{factory.header_tuple(exp_pkts[index])[3]}] ({desc})", "parse|wrong_apid")
            else:
                if ctrs:
                    out.fail("packet_shown_for_bad_index", f"--packet {index} with {m} packets printed counters {ctrs[:12]} "
                                                           f"({desc})", "parse|shown_for_bad_index")
                elif gopts and gopts[0] in ("-q", "--log-level") and gopts[-1] != "DEBUG":
                    w.probe("out_of_range_message_unjudged_quiet")     # an answer given as a log record is silenced by these options
                elif not non_log_text(_ANSI.sub("", text_all)).strip():        # informational log records aside
                    out.fail("no_out_of_range_message", f"--packet {index} with {m} packets printed nothing (log records aside): "
                                                        f"an out-of-range message is required ({desc})", "parse|no_message")
                elif not _OOR.search(text_all):
                    w.probe("out_of_range_message_unrecognised_wording")      # some message was printed: wording is not judged

    out.log = w.log
    out.faults = w.faults
    out.probes = w.probes
    out.sim_ns = w.now
    out.nontrivial = n >= 1 or bool(torn)
    out.sched = (cmd, n, index, k, bool(torn), tuple(e[3] for e in w.log if e[2] == "disk"))
    if render:
        out.sample = {
            "command": args[0], "n_written": n, "complete_packets_on_disk": m, "index": index, "skip_header_bytes": k,
            "torn": bool(torn), "file_bytes": len(content), "bufsize": bufsize, "short_reads": short_mode,
            "raw_reads": [r.calls for r in raws], "eof_reads": [r.eof_reads for r in raws],
            "exit_code": None if result is None else result.exit_code,
            "output_head": text[:600],
            "result": out.violation or "ok",
        }
    return out
