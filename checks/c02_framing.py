"""C02 -- stream framing is exact and independent of source kind and chunking.

Simulated: producers writing a factory-built packet stream into (a) a bytes object, (b) a
simulated disk file read through a real io.BufferedReader (also io.BytesIO and a real temp
file as controls), (c) a simulated TCP pipe read through SimSocket, with seeded write sizes,
delays and recv fragmentation. Consumer: the real ccsds_generator / packet_generator(headers
only). No EOF/close faults here (that is C10).
"""
import gzip
import io
import os
import sys
import tempfile

from sim import factory
from sim.choices import payload
from sim.kernel import (ClockSeam, library_exception, LivenessViolation, NullOut, Pipe, SimClock, SimDeadlock, SimRaw, SimSocket,
                        StepBudgetExceeded, World)
from sim.runner import Outcome

ID = "C02"
LEVEL = "exploration"
RUN_WALL_S = 180
TIERS = {
    "quick": {"cases": 60_000, "episode": 250, "selftest": 96, "wall_cap_s": 600, "shrink_s": 45},
    "thorough": {"cases": 3_000_000, "episode": 500, "selftest": 1024, "wall_cap_s": 3 * 3600, "shrink_s": 120},
}
RULE = ("each case draws (source kind, consumer, prefix k, read size, trim-threshold knob, clock/progress, "
        "packet sequence, socket write sizes/delays/recv fragmentation or BufferedReader buffer size/short raw reads) "
        "from one seed; non-trivial = at least 2 packets AND at least one read/recv boundary strictly inside a packet "
        "or exactly on a packet end (bytes sources: >= 2 packets and k>0 or a non-default knob); distinct = distinct "
        "choice lists")
COMPONENTS = {
    "real": ["space_packet_parser.packets.ccsds_generator", "XtcePacketDefinition.packet_generator(ccsds_headers_only=True)",
             "io.BufferedReader", "io.BytesIO", "real temp file (control)", "gzip.GzipFile (control)"],
    "stub": ["SimRaw raw disk device (short reads)", "SimSocket.recv over a simulated ordered byte pipe",
             "producer task (write sizes, delays)", "SimClock replacing packets.time",
             "clone of ccsds_generator with the 20 MB trim constant replaced (knob; genuine constant kept in a share of runs)"],
}
ASSUMPTIONS = [
    "file objects start at position 0 and do not change size while read",
    "short reads of the raw device are absorbed by a real io.BufferedReader (the library is never given a raw stream)",
    "an open socket is not required to make the generator terminate; the consumer stops after the expected packets",
    "sampled, not exhaustive: a clean batch is evidence, not proof",
]
DEGRADED_PROBES = ("trim_knob_unavailable", "clock_seam_unavailable")
EXPECTED_PROBES = ("b_in_prefix", "b_in_header", "b_at_header_end", "b_in_body", "b_on_packet_end", "read_size_1",
                   "max_packet", "trim_taken", "genuine_trim_taken")

BIG_DEN = 40_000
SOURCES = [(4, "bytes"), (6, "file"), (2, "bytesio"), (7, "socket"), (1, "realfile"), (1, "gzipfile"), (2, "pipefile")]
SRC_NAMES = [s for _, s in SOURCES]

_packets = factory.import_library()          # import only; nothing of the library is called before fork
from space_packet_parser.xtce.definitions import XtcePacketDefinition  # noqa: E402

_defn = None


def setup_process():
    global _defn
    _defn = XtcePacketDefinition()


def systematic():
    """First cases: genuine >20 MB runs: bytes; file read in 64 KiB pieces; socket (default 4096); file with the default
    full read; non-seekable file read in 1 MiB pieces."""
    out = []
    # prefix: [big-flag draw = BIG_DEN-1, source index by cumulative weight]
    cum = 0
    starts = {}
    for w, s in SOURCES:
        starts[s] = cum
        cum += w
    # draws pinned: big, source, consumer (0 = ccsds_generator), k (0), read size (0 = default, 1 = 65536, 2 = 1 MiB)
    for s, rs_ix in (("bytes", 0), ("file", 1), ("socket", 0), ("file", 0), ("pipefile", 2)):
        out.append([BIG_DEN - 1, starts[s], 0, 0, rs_ix])
    return out


def _classify(boundaries, layout, w):
    """Count where read/recv boundaries fall relative to the packet layout."""
    if not boundaries:
        return 0
    inside = 0
    bi = 0
    bs = boundaries
    nb = len(bs)
    for (start, k, end) in layout:
        hdr0 = start + k
        hdr_end = hdr0 + 6
        while bi < nb and bs[bi] <= start:
            bi += 1
        j = bi
        while j < nb and bs[j] <= end:
            b = bs[j]
            if b < hdr0:
                w.probe("b_in_prefix")
                inside += 1
            elif b == hdr0 and k:
                w.probe("b_at_prefix_end")
                inside += 1
            elif b < hdr_end:
                w.probe("b_in_header")
                inside += 1
            elif b == hdr_end:
                w.probe("b_at_header_end")
                inside += 1
            elif b < end:
                w.probe("b_in_body")
                inside += 1
            else:
                w.probe("b_on_packet_end")
                inside += 1
            j += 1
        bi = j
    return inside


def run(ch, render=False):
    out = Outcome()
    w = World(ch, max_steps=400_000)
    pk = _packets
    big = ch.chance(1, BIG_DEN, "big")
    src = ch.weighted(SOURCES, "source")
    consumer = ch.weighted([(3, "ccsds_generator"), (1, "packet_generator")], "consumer")
    k = ch.weighted([(8, 0), (1, 1), (1, 4), (1, 6), (1, 7), (1, 11), (1, 5), (1, 2), (1, 12), (1, 13), (1, 64), (1, 300)], "k")
    if big:
        rs = ch.pick((None, 65536, 1 << 20), "read_size")
        knob = None
    else:
        rs = ch.pick((None, 1, 2, 3, 5, 6, 7, 8, 13, 4096, 65536, "gt", 9, 10, 11, 12, 16, 64, 100, 1000, 4095, 4097), "read_size")
        knob = ch.pick((7, None, 64, 1000), "trim")   # small threshold most of the time: cheap way into the branch
    progress = ch.chance(1, 6, "progress")
    clock_mode = ch.pick(("ok", "frozen", "back", "forward"), "clock") if progress else "ok"

    # ---- source-specific schedule knobs (drawn before the packets: byte-by-byte modes cap sizes) ----
    bufsize = 8192
    short_mode = "full"
    wsizes = "all"
    take_mode = "all"
    delay_mode = 0
    if src in ("file", "pipefile"):
        bufsize = ch.pick((8192, 1, 2, 7, 16, 4096, 65536, 100), "bufsize")
        short_mode = ch.pick(("full", "drawn", "one"), "short")
        if big:
            short_mode = "full"
            bufsize = 65536
    elif src == "socket":
        if big:
            wsizes = "1M"
        else:
            wsizes = ch.pick(("all", "packets", "drawn", "bytes1", "hdr_split"), "wsizes")
            take_mode = ch.pick(("all", "drawn", "one"), "take")
        delay_mode = ch.pick((0, 1_000, 1_000_000, "drawn"), "delay")
    fine = ((isinstance(rs, int) and rs <= 16) or short_mode == "one" or take_mode == "one" or wsizes == "bytes1")
    cap = None
    if fine:
        cap = ch.pick((40, 300, 1500), "cap")

    # ---- the packet sequence -------------------------------------------------------------
    pkts = []
    if big:
        n_max = 20_000_100 // (65542 + k) + 1
        sub = 1 + ch.draw(1 << 16, "bigpayload")
        body = payload(sub, 65536)
        for i in range(n_max):
            pkts.append(factory.build_packet(0, 0, 0, (i * 7) & 0x7FF, 3, i & 0x3FFF, body))
        tail_n = 2 + ch.draw(4, "tail_n")
        for i in range(tail_n):
            pkts.append(factory.draw_packet(ch, None, allow_max=False))
    else:
        if fine:
            n = ch.weighted([(2, 1), (4, 2), (4, 3), (3, 5), (2, 9), (1, 20)], "n")
        else:
            n = ch.weighted([(2, 1), (4, 2), (4, 3), (3, 5), (2, 9), (1, 20), (1, 40)], "n")
        rs_int = rs if isinstance(rs, int) else None
        allow_max = ch.chance(1, 8, "allow_max")
        for i in range(n):
            pkts.append(factory.draw_packet(ch, rs_int, allow_max=allow_max, cap=cap))
    prefixes = []
    if k:
        psub = ch.draw(1 << 16, "prefix_bytes")
        for i in range(len(pkts)):
            prefixes.append(payload(psub + i, k) if psub else (b"\xff" * k))
        if ch.chance(1, 10, "prefix_magic"):
            # the foreign bytes in front of the first packet spell a file-format magic number
            m = ch.pick(factory.MAGICS, "magic")
            prefixes[0] = (m + prefixes[0])[:k]
    parts = []
    layout = []
    pos = 0
    for i, p in enumerate(pkts):
        if k:
            parts.append(prefixes[i])
        parts.append(p)
        layout.append((pos, k, pos + k + len(p)))
        pos += k + len(p)
    stream = b"".join(parts)
    total = len(stream)
    if rs == "gt":
        rs = total + 1 + ch.draw(5, "gt_extra")
    if any(len(p) == 65542 for p in pkts):
        w.probe("max_packet")
    if rs == 1:
        w.probe("read_size_1")

    # ---- the source ----------------------------------------------------------------------
    boundaries = []
    sock = None
    tmp_path = None
    fobj = None
    raw = None
    if src == "bytes":
        source = stream
    elif src == "bytesio":
        source = io.BytesIO(stream)
    elif src == "gzipfile":
        # another real io.BufferedIOBase: a gzip.GzipFile over an in-memory compressed copy (control, like realfile)
        zbuf = io.BytesIO()
        with gzip.GzipFile(fileobj=zbuf, mode="wb", mtime=0) as zf:
            zf.write(stream)
        zbuf.seek(0)
        fobj = gzip.GzipFile(fileobj=zbuf, mode="rb")
        source = fobj
    elif src == "realfile":
        fd, tmp_path = tempfile.mkstemp(prefix="verif_c02_")
        os.write(fd, stream)
        os.close(fd)
        fobj = open(tmp_path, "rb")
        source = fobj
    elif src in ("file", "pipefile"):
        def short(possible, _m=short_mode):
            if _m == "full":
                return possible
            if _m == "one":
                w.fault("short_raw_read")
                return 1
            n_ = 1 + ch.draw(possible, "raw_n")
            if n_ < possible:
                w.fault("short_raw_read")
            return n_
        raw = SimRaw(w, stream, short=short, seekable=(src == "file"))      # pipefile: a pipe / FIFO / stdin-like stream
        source = io.BufferedReader(raw, buffer_size=bufsize)
        if src == "pipefile":
            w.probe("non_seekable_file")
    else:  # socket
        pipe = Pipe(w)

        def producer():
            o = 0
            if wsizes == "all":
                cuts = [total]
            elif wsizes == "1M":
                cuts = list(range(1 << 20, total, 1 << 20)) + [total]
            elif wsizes == "packets":
                cuts = [e for (_, _, e) in layout]
            elif wsizes == "hdr_split":
                cuts = []
                for (s, kk, e) in layout:
                    c = s + kk + 1 + ch.draw(5, "hdr_cut")
                    if c < e:
                        cuts.append(c)
                    cuts.append(e)
            elif wsizes == "bytes1":
                cuts = list(range(1, total + 1))
            else:
                cuts = []
                c = 0
                while c < total:
                    c += 1 + ch.draw(min(total - c, 3000), "wlen")
                    cuts.append(c)
            for c in cuts:
                if c <= o:
                    continue
                yield ("send", pipe, stream[o:c])
                o = c
                if delay_mode == "drawn":
                    yield ("sleep", ch.pick((0, 1, 1_000, 50_000, 3_000_000_000), "sleep"))
                elif delay_mode:
                    yield ("sleep", delay_mode)

        def take(avail, _m=take_mode):
            if _m == "all":
                return avail
            if _m == "one":
                return 1
            return 1 + ch.draw(avail, "take_n")
        w.spawn("producer", producer())
        sock = SimSocket(w, pipe, take=take)
        source = sock

    # ---- knobs: trim threshold clone, simulated clock, captured stdout ------------------
    saved_stdout = sys.stdout
    clk = None
    if progress:
        if clock_mode == "frozen":
            clk = SimClock(w, lambda t, i: 1_700_000_000_000_000_000)
            w.fault("clock_frozen")
        elif clock_mode == "back":
            clk = SimClock(w, lambda t, i: t - i * 3_600_000_000_000)
            w.fault("clock_back")
        elif clock_mode == "forward":
            clk = SimClock(w, lambda t, i: t + i * 86_400_000_000_000 * 365)
            w.fault("clock_forward")
        else:
            clk = SimClock(w)
        sys.stdout = NullOut()
    seam = ClockSeam(pk, clk) if clk is not None else None
    if seam is not None:
        seam.__enter__()
        if not seam.installed:
            w.probe("clock_seam_unavailable")
    got = []
    err = None
    extra = None
    stopped = False
    knob_active = False
    tk = factory.TrimKnob(pk, knob)
    gen = None
    try:
        # the knob stays installed for the whole run: packet_generator looks the framer up (module attribute
        # packets.ccsds_generator) only when it is first advanced
        tk.__enter__()
        knob_active = tk.active
        kwargs = dict(buffer_read_size_bytes=rs, show_progress=progress, skip_header_bytes=k)
        w.ev("consumer", "start", src, consumer)
        try:
            # creation is inside the try as well: a library whose set-up runs eagerly may raise here already
            if consumer == "ccsds_generator":
                gen = pk.ccsds_generator(source, **kwargs)
            else:
                # headers-only framing returns every packet as it stands, whatever the other options say: segment
                # combining (a parsing-stage option) is drawn too, the packets carry all four sequence-flag values
                if ch.chance(1, 2, "hdr_only_combine"):
                    kwargs["combine_segmented_packets"] = True
                    kwargs["secondary_header_bytes"] = ch.pick((0, 4, 1), "hdr_only_sh")
                    w.probe("headers_only_with_combine")
                gen = _defn.packet_generator(source, ccsds_headers_only=True, **kwargs)
            for i in range(len(pkts)):
                item = next(gen)
                got.append(item)
                if raw is not None:
                    raw.eof_reads = 0            # progress: the end-of-stream poll budget counts polls WITHOUT progress
                try:
                    ib = bytes(memoryview(getattr(item, "raw_data", item)))
                except TypeError:      # not bytes-like at all: judged below
                    ib = None
                w.ev("consumer", "item", -1 if ib is None else len(ib))
                if ib != pkts[i]:
                    break
            else:
                if src != "socket":
                    try:
                        extra = next(gen)
                    except StopIteration:
                        stopped = True
        except StopIteration:
            err = ("early_stop", "generator stopped before all packets were yielded")
        except (LivenessViolation, SimDeadlock, StepBudgetExceeded) as e:
            err = (type(e).__name__, str(e))
        except Exception as e:  # any exception out of the library is a violation (unless harness code raised it)
            library_exception(e)
            err = ("exception", f"{type(e).__name__}: {e}")
        finally:
            try:
                if gen is not None:
                    gen.close()
            except Exception:
                pass
    finally:
        tk.__exit__(None, None, None)
        if seam is not None:
            seam.__exit__(None, None, None)
        sys.stdout = saved_stdout
        if sock is not None:
            sock.close()
        if fobj is not None:
            fobj.close()
        if tmp_path is not None:
            os.unlink(tmp_path)

    # ---- where did the chunk boundaries fall (probes / non-triviality) --------------------
    if src == "socket":
        c = 0
        for e in w.log:
            if e[2] == "sock" and e[3] == "recv":
                c += e[4]
                boundaries.append(c)
    elif src in ("file", "pipefile", "bytesio", "realfile", "gzipfile") and isinstance(rs, int) and rs > 0 and not big:
        boundaries = list(range(rs, total + 1, rs))
    elif big and isinstance(rs, int):
        boundaries = list(range(rs, total + 1, rs))
    inside = _classify(boundaries, layout, w)
    thr = knob if (knob is not None and knob_active) else factory.TRIM_CONST
    if any(s > thr for (s, _, _) in layout[1:]):
        # consumed offset exceeded the installed threshold before a later packet was framed.
        # (the library's offset restarts after each trim, so this is the first trim only)
        w.probe("trim_taken")
        if thr == factory.TRIM_CONST:
            w.probe("genuine_trim_taken")
    if knob is not None and not knob_active:
        w.probe("trim_knob_unavailable")

    # ---- oracle ------------------------------------------------------------------------
    sizes = [len(p) for p in pkts]
    desc = f"src={src} consumer={consumer} k={k} read_size={rs} n={len(pkts)}"
    if err is not None:
        kind, msg = err
        out.fail({"SimDeadlock": "blocked_needing_more_bytes", "LivenessViolation": "polls_after_eof",
                  "StepBudgetExceeded": "step_budget"}.get(kind, kind),
                 f"{msg} after {len(got)} of {len(pkts)} packets ({desc})")
    else:
        for i, item in enumerate(got):
            # "byte-identical": any bytes-like object (bytes, a bytes subclass, bytearray, memoryview ...) whose content is
            # the packet; only something that is not bytes-like at all is a wrong type
            try:
                ib = bytes(memoryview(getattr(item, "raw_data", item)))      # the packet itself, or an object carrying it
            except TypeError:
                out.fail("wrong_type", f"item {i} is {type(item).__name__}, not a bytes-like object ({desc})")
                break
            if ib != pkts[i]:
                out.fail("wrong_bytes", f"item {i}: got {len(ib)} bytes {ib[:12].hex()}.., expected "
                                        f"{len(pkts[i])} bytes {pkts[i][:12].hex()}.. ({desc})")
                break
        else:
            if src != "socket":
                if extra is not None:
                    out.fail("extra_item", f"a further item ({type(extra).__name__}) was yielded after the last packet ({desc})")
                elif not stopped:
                    out.fail("no_stop", f"generator did not stop after the last packet ({desc})")
    out.log = w.log
    out.faults = w.faults
    out.probes = w.probes
    out.sim_ns = w.now
    if src == "bytes":
        out.nontrivial = len(pkts) >= 2 and (k > 0 or knob_active)
    else:
        out.nontrivial = len(pkts) >= 2 and inside > 0
    if inside:
        w.fault("chunk_boundary", inside)
    if render:
        out.sample = {
            "source": src, "consumer": consumer, "skip_header_bytes": k, "read_size": rs, "trim_threshold": thr,
            "show_progress": progress, "clock": clock_mode, "packet_lengths": sizes[:12] + (["..."] if len(sizes) > 12 else []),
            "n_packets": len(pkts), "stream_bytes": total,
            "first_boundaries": boundaries[:12], "boundaries": len(boundaries),
            "events": [list(e[2:]) for e in w.log[:25]],
            "result": out.violation or "ok",
        }
    return out
