"""C11 -- packets are parsed independently; generators and definitions do not interfere.

Simulated: 1-2 definitions loaded from XTCE-family documents, 1-6 packet generators created from
them with drawn options, each over its own source (bytes / simulated disk file / simulated socket
fed by a producer task; all sockets share one event queue). Streams mix recognised packets of
several APIDs, unknown APIDs (abstract dead end), ambiguous packets (two inheritors match),
two-level dead ends, and wrong-length packets. The seeded *scheduler* decides which live generator
receives each next(); faults: switching, abandoning a generator mid-stream (close), loading
another document (other namespace convention, possibly failing) between two next() calls, direct
parse_ccsds_packet calls on the shared definition in between.

Oracle: for every generator, the observed item and warning sequences equal the concatenation over
its packets of what a *fresh* generator with the same options yields for that packet alone, run
beforehand on a separately loaded definition object the generators under test never touch (computed
twice, in stream order and in reverse order on two separate objects, which must agree). Category
facts known by construction are checked directly, and fingerprint + serialisation of each shared
definition are identical before and after.
"""
import io
import os
import pickle
import select
import signal
import time
import warnings
import zlib

from sim import factory
from sim import xtce_family as xf
from sim.kernel import HarnessBug, library_exception, LivenessViolation, Pipe, SimDeadlock, SimRaw, SimSocket, StepBudgetExceeded, World
from sim.procs import in_pristine_child
from sim.runner import Outcome

ID = "C11"
LEVEL = "exploration"
ISOLATE = True
RUN_WALL_S = 150
TIERS = {
    "quick": {"cases": 6_000, "episode": 1, "selftest": 48, "wall_cap_s": 900, "shrink_s": 90},
    "thorough": {"cases": 1_000_000, "episode": 1, "selftest": 512, "wall_cap_s": 4 * 3600, "shrink_s": 180},
}
RULE = ("each case is one freshly forked process: 1-2 drawn XTCE-family documents, 1-6 generators with drawn options "
        "(parse_bad_pkts, yield_unrecognized_packet_errors, ccsds_headers_only, combine_segmented_packets on unsegmented "
        "streams, skip_header_bytes, read size, explicit root container) over bytes / simulated file / simulated socket, "
        "streams of 1-25 packets mixing recognised / unknown-APID / ambiguous / two-level dead end / over-long / short "
        "packets, and a drawn schedule of next() / close() / load-another-document / direct-parse steps; non-trivial = "
        ">= 2 generators on one definition with >= 1 switch between them, or >= 1 unrecognised or wrong-length packet "
        "followed by another packet; distinct = distinct choice lists")
COMPONENTS = {
    "real": ["XtcePacketDefinition.from_xtce, packet_generator, parse_ccsds_packet, to_xml_tree", "ccsds_generator framer",
             "all of xtce/* decoders", "io.BufferedReader", "warnings machinery"],
    "stub": ["scheduler choosing which generator gets the next next()", "SimSocket + producer tasks on one shared event queue",
             "SimRaw disk", "XTCE-family document generator and packet encoder (an encoder only; nothing is decoded outside "
             "the library)"],
}
ASSUMPTIONS = [
    "a packet whose stand-alone parse raises anything other than being reported as unrecognised (e.g. a non-extrapolating "
    "spline out of range, or a short packet making the bit reader raise) would end a generator, which the statement does "
    "not speak to; such packets are detected at plan time by one stand-alone parse on a separate definition object and "
    "replaced (count reported as probe 'replaced_raising_packet')",
    "both sides of the main comparison are the library (alone vs interleaved): the property is that they agree; category "
    "facts (unknown APID -> one error object carrying the seven header values when reporting is on, nothing when off; "
    "over-long packet withheld when parse_bad_pkts=False) are checked by construction in addition",
    "warnings are not part of the statement: a difference between the warnings raised interleaved and alone is counted "
    "(probe warnings_differ_from_alone) but never reported",
    "generators are advanced by one thread; no pre-emption inside a next() call",
    "a generator whose own source fails with an injected I/O error (disk EIO, connection reset, receive timeout) may raise "
    "that error; what it yielded before must be a prefix of the alone-results; every other generator is judged in full",
]


def vacuity(agg):
    n = agg.probes.get("document_unloadable", 0)
    if agg.evaluations and n * 5 > agg.evaluations:
        return f"{n} of {agg.evaluations} runs drew a document that does not load at all; nothing could be judged there"
    return None


EXPECTED_PROBES = ("gen_switch", "gen_close", "load_between_next", "direct_parse_between", "unknown_apid_packet",
                   "ambiguous_packet", "dead_sub_packet", "long_packet", "reporting_on", "reporting_off", "skip_bad",
                   "headers_only", "shared_definition_2plus", "socket_source", "file_source", "two_definitions",
                   "source_fault_eio", "source_fault_rst", "source_fault_stall_timeout", "direct_parse_same_raw_object", "segment_group",
                   "unfinished_segment_group", "packet_inside_open_group", "duplicate_unit", "duplicate_unit_across_generators",
                   "stuck_counter", "non_default_root_container", "long_stream", "bad_packet_kills_generator")
# (probe warnings_differ_from_alone is expected to stay at 0 on the unchanged tree; it is informational)

_packets = factory.import_library()
import lxml.etree as _ET  # noqa: E402
from space_packet_parser.packets import CCSDSPacket  # noqa: E402
from space_packet_parser.xtce.definitions import XtcePacketDefinition  # noqa: E402


_NOTHING = object()
CAT_LETTER = {"leaf": "R", "long": "L", "short": "S", "unknown": "U", "ambiguous": "A", "dead_sub": "D", "group": "G", "open_group": "g", "foreign_group": "f", "raises": "X"}


def load(xml, rd):
    with warnings.catch_warnings():
        warnings.simplefilter("ignore")
        return XtcePacketDefinition.from_xtce(io.BytesIO(xml), xtce_ns_prefix=xf.ns_prefix_arg(rd))


def unit_stream(unit, k):
    """A stream unit is one packet (bytes) or, for generators that combine segments, one segment group (tuple of
    packets: FIRST, CONTINUATION*, [LAST]) delivered contiguously. Each packet is preceded by k foreign bytes."""
    if isinstance(unit, bytes):
        return (b"\xEE" * k) + unit
    return b"".join((b"\xEE" * k) + p for p in unit)


def make_group(base, nseg_draws, sh, complete=True, inter=None):
    """Split the data field of the unsegmented packet ``base`` into a FIRST / CONTINUATION* / LAST group whose
    reassembly (first packet whole + later data fields minus ``sh`` secondary-header bytes) has base's data field."""
    data = base[6:]
    cuts = sorted(set(1 + (d % max(1, len(data) - 1)) for d in nseg_draws if len(data) > 1))
    parts = [data[a:b] for a, b in zip([0] + cuts, cuts + [len(data)])]
    if len(parts) < 2:
        return None
    w0 = base[:2]
    c0 = int.from_bytes(base[2:4], "big") & 0x3FFF
    segs = []
    for j, part in enumerate(parts):
        flag = 1 if j == 0 else (2 if j == len(parts) - 1 else 0)
        body = part if j == 0 else (b"\x5A" * sh) + part
        w1 = (flag << 14) | ((c0 + j) & 0x3FFF)
        segs.append(w0 + w1.to_bytes(2, "big") + (len(body) - 1).to_bytes(2, "big") + body)
    if not complete:
        segs = segs[:-1]
    if inter is not None and len(segs) >= 2:
        # a packet of ANOTHER APID between two segments: the generator yields it while the group is still open, so the
        # scheduler can switch to another generator in the middle of a group
        at = 1 + inter[0] % (len(segs) - 1)
        segs = segs[:at] + [inter[1]] + segs[at:]
    return tuple(segs)


def alone(defn, pkt, k, opts):
    """What a fresh generator with ``opts`` yields for this one stream unit: (items, warnings) or None if it raises."""
    src = unit_stream(pkt, k)
    with warnings.catch_warnings(record=True) as rec:
        warnings.simplefilter("always")
        try:
            raw_items = list(defn.packet_generator(src, skip_header_bytes=k, **opts))
        except Exception as e:      # noqa: BLE001
            library_exception(e)
            return None, f"{type(e).__name__}: {e}"
    items = [xf.canon_item(i) for i in raw_items]          # (harness code: outside the library try block)
    return (tuple(items), tuple((w_.category.__name__, str(w_.message)) for w_ in rec)), None


def serial(defn):
    """Checksum of the definition written back to XML; a definition that can no longer be written is a value too (it is
    compared with what the same call gave before anything was parsed)."""
    try:
        tree = defn.to_xml_tree()
    except Exception as e:      # noqa: BLE001
        library_exception(e)
        return f"to_xml_tree raises {type(e).__name__}"
    return zlib.crc32(_ET.tostring(tree))


def same_io_error(e, injected):
    seen = 0
    x = e
    while x is not None and seen < 8:
        if x is injected:
            return True
        x = x.__cause__ or x.__context__
        seen += 1
    return isinstance(e, OSError) and isinstance(e, type(injected)) and getattr(e, "errno", None) == getattr(injected, "errno", None)


def relen(pkt, data):
    return pkt[:4] + (len(data) - 1).to_bytes(2, "big") + data


def run(ch, render=False):
    out = Outcome()
    w = World(ch, max_steps=200_000)
    n_defs = 1 + ch.draw(2, "n_defs")
    if n_defs == 2:
        w.probe("two_definitions")
    docs, rds, xmls, defs, oracle_a, oracle_b = [], [], [], [], [], []
    for i in range(n_defs):
        d = xf.draw_doc(ch, tag=f"D{i}")
        rd = xf.draw_rendering(ch) if ch.chance(1, 2, "render") else dict(xf.CANONICAL)
        xml = xf.render(d, rd)
        try:
            defs.append(load(xml, rd))
            oracle_a.append(load(xml, rd))
            oracle_b.append(load(xml, rd))
        except Exception as e:      # noqa: BLE001  -- an unloadable document is C16/C17 territory
            w.probe("document_unloadable")
            out.log, out.probes = w.log, w.probes
            if render:
                out.sample = {"note": f"drawn document does not load: {type(e).__name__}: {e}"}
            return out
        docs.append(d)
        rds.append(rd)
        xmls.append(xml)

    # ---- generators: options, streams, sources ---------------------------------------------------
    n_gens = ch.weighted([(2, 2), (2, 1), (2, 3), (1, 4), (1, 6)], "n_gens")
    enabled = {f: ch.chance(2, 3, "en_" + f) for f in ("gen_close", "load_between_next", "direct_parse_between")}
    enabled["source_fault"] = ch.chance(1, 3, "en_source_fault")
    # failure isolation: ONE generator may carry, as its last unit, a packet on which the decoder raises (that generator
    # dies on it - the statement says nothing about that); every other generator, and every later use of the shared
    # definition, must not notice
    poison_gi = ch.draw(n_gens, "poison_gen") if ch.chance(1, 3, "en_poison") else None
    gens = []
    other_xml = None
    for gi in range(n_gens):
        di = ch.draw(n_defs, "def_of_gen")
        doc = docs[di]
        opts = {}
        if ch.chance(1, 2, "o_report"):
            opts["yield_unrecognized_packet_errors"] = True
            w.probe("reporting_on")
        else:
            w.probe("reporting_off")
        if ch.chance(1, 3, "o_skipbad"):
            opts["parse_bad_pkts"] = False
            w.probe("skip_bad")
        if ch.chance(1, 8, "o_hdronly"):
            opts["ccsds_headers_only"] = True
            w.probe("headers_only")
        if ch.chance(1, 3, "o_combine"):
            opts["combine_segmented_packets"] = True
            if ch.chance(1, 2, "o_sh"):
                opts["secondary_header_bytes"] = ch.pick((2, 4), "o_shv")
        if ch.chance(1, 4, "o_root"):
            # an explicit root container: the default one, or (if the document has it) another header-bearing container
            opts["root_container_name"] = doc.alt_root if (doc.alt_root and ch.chance(2, 3, "o_root_alt")) else "CCSDSPacket"
            if opts["root_container_name"] != "CCSDSPacket":
                w.probe("non_default_root_container")
        k = ch.weighted([(6, 0), (1, 4), (1, 1)], "k")
        rs = ch.pick((None, 7, 1, 64, 4096), "read_size")
        n_pk = 1 + ch.draw(ch.pick((4, 8, 25), "npk_max"), "n_pk")
        long_cats = None
        if gi == 0 and ch.chance(1, 20, "long_stream"):
            # a long stream of one or two categories: state that only matters after dozens or hundreds of packets
            n_pk = 60 + ch.draw(540, "n_long")
            long_cats = [ch.pick(("long", "leaf", "unknown", "short"), "long_cat") for _ in range(1 + ch.draw(2, "long_ncat"))]
            w.probe("long_stream")
        # candidates are only BUILT here; nothing is parsed in this process before the interleaving starts (process-wide
        # state that only grows would otherwise be saturated beforehand and hide itself): classification and the
        # alone-expectations are computed in children forked from this still pristine process
        cands = []
        for pi in range(n_pk):
            cat = ch.weighted([(8, "leaf"), (2, "unknown"), (2, "long"), (1, "short"), (1, "ambiguous"), (1, "dead_sub")]
                              + ([(6, "group"), (1, "open_group")] if opts.get("combine_segmented_packets") else []), "cat")
            if long_cats is not None:
                cat = long_cats[ch.draw(len(long_cats), "long_pick")]
            sub = ch.draw(1 << 16, "sub")
            cnt = (gi * 1000 + pi) % 16384
            leaf = doc.leaves[ch.draw(len(doc.leaves), "leaf")]
            if cat == "ambiguous" and doc.ambiguous_apid is None:
                cat = "unknown"
            if cat == "dead_sub" and doc.dead_sub is None:
                cat = "unknown"
            base = None
            if cat in ("group", "open_group"):
                # a segment group whose reassembly is a packet of this leaf (only for generators that combine segments)
                whole = xf.encode_packet(doc, leaf["chain"], leaf["apid"], leaf["fixed"], sub, count=cnt)
                inter = None
                if ch.chance(1, 2, "seg_inter"):
                    others = [lf for lf in doc.leaves if lf["apid"] != leaf["apid"]]
                    if others:
                        ol = others[ch.draw(len(others), "inter_leaf")]
                        ip = xf.encode_packet(doc, ol["chain"], ol["apid"], ol["fixed"], ch.draw(1 << 16, "inter_sub"), count=cnt + 7)
                    else:
                        ip = xf.encode_packet(doc, ["CCSDSPacket"], doc.unknown_apids[0], {}, 0, count=cnt + 7)
                    inter = (ch.draw(8, "inter_at"), ip)
                    w.probe("packet_inside_open_group")
                p = make_group(whole, [ch.draw(1 << 12, "seg_cut") for _ in range(1 + ch.draw(3, "nseg"))],
                               opts.get("secondary_header_bytes", 0), complete=(cat == "group"), inter=inter)
                base = whole          # kept: the unsegmented packet this group was cut from
                if p is None:
                    p, cat, base = whole, "leaf", None
            elif cat == "leaf":
                p = xf.encode_packet(doc, leaf["chain"], leaf["apid"], leaf["fixed"], sub, count=cnt)
            elif cat == "unknown":
                p = xf.encode_packet(doc, ["CCSDSPacket"], doc.unknown_apids[ch.draw(2, "unk")], {}, sub, count=cnt)
                p = relen(p, factory.payload(sub, 1 + sub % 9)) if sub else p
            elif cat == "ambiguous":
                p = xf.encode_packet(doc, ["CCSDSPacket"], doc.ambiguous_apid, {}, sub, count=cnt)
                p = relen(p, factory.payload(sub + 1, 12))
            elif cat == "dead_sub":
                ds = doc.dead_sub
                p = xf.encode_packet(doc, ds["chain"], ds["apid"], ds["fixed"], sub, count=cnt)
            elif cat == "long":
                # "over-long" is only known by construction if the packet without the extra bytes is consumed exactly
                # (decided by the library itself, in the classification child; no field of the family depends on the
                # length field, so extra trailing bytes are then certainly left over)
                base = xf.encode_packet(doc, leaf["chain"], leaf["apid"], leaf["fixed"], sub, count=cnt)
                p = relen(base, base[6:] + factory.payload(sub + 7, 1 + sub % 3))
            else:  # short
                p = xf.encode_packet(doc, leaf["chain"], leaf["apid"], leaf["fixed"], sub, count=cnt)
                if len(p) > 7:
                    p = relen(p, p[6:len(p) - 1 - (sub % max(1, len(p) - 7))])
            fallback = xf.encode_packet(doc, ["CCSDSPacket"], doc.unknown_apids[0], {}, 0, count=cnt)
            # retransmissions and stuck counters: the very same unit again (adjacent or later, or one that another
            # generator on the same definition carries too), or a different packet with the same APID and count
            dup = ch.weighted([(12, None), (1, "prev"), (1, "earlier"), (1, "other_gen"), (1, "same_count")], "dup_unit")
            if dup == "prev" and cands:
                cat, p, base, fallback = cands[-1]
                w.probe("duplicate_unit")
            elif dup == "earlier" and cands:
                cat, p, base, fallback = cands[ch.draw(len(cands), "dup_of")]
                w.probe("duplicate_unit")
            elif dup == "other_gen":
                pool = [c_ for g_ in gens if g_["di"] == di for c_ in g_["cands"]]
                if pool:
                    cat, p, base, fallback = pool[ch.draw(len(pool), "dup_other")]
                    if cat in ("group", "open_group"):
                        # built for the other generator's options (combining or not, its secondary-header length): here it
                        # is just some packets; nothing is known about it by construction
                        cat, base = "foreign_group", None
                    w.probe("duplicate_unit_across_generators")
            elif dup == "same_count" and cands and isinstance(p, bytes) and isinstance(cands[-1][1], bytes):
                prev_p = cands[-1][1]
                if prev_p[:2] == p[:2]:
                    p = p[:2] + prev_p[2:4] + p[4:]            # same APID, same flags and count, different content
                    if base is not None:
                        base = base[:2] + prev_p[2:4] + base[4:]
                    w.probe("stuck_counter")
            cands.append((cat, p, base, fallback))
        srckind = ch.weighted([(4, "bytes"), (3, "file"), (3, "socket")], "src")
        # source faults: ONE generator's disk or link fails mid-stream; the others must not notice
        inject = "none"
        if enabled["source_fault"]:
            if srckind == "file":
                inject = ch.weighted([(3, "none"), (1, "eio")], "inject")
            elif srckind == "socket":
                inject = ch.weighted([(3, "none"), (1, "rst"), (1, "stall_timeout")], "inject")
        if gi == poison_gi:
            inject = "none"
        gens.append(dict(di=di, opts=opts, k=k, rs=rs, cands=cands, src=srckind, inject=inject, raws=None))

    # ---- child 1 (pristine fork): classify the candidates; anything whose stand-alone parse raises is replaced ----------
    def classify():
        res = []
        rep_ = 0
        for gi_, g in enumerate(gens):
            pk_, ct_, ad_ = [], [], []
            for (cat, p, base, fallback) in g["cands"]:
                if cat == "long":
                    r0, e0 = alone(oracle_a[g["di"]], base, 0, {"yield_unrecognized_packet_errors": True})
                    exact = (e0 is None and len(r0[0]) == 1 and r0[0][0][0] == "PKT" and r0[0][0][3] == len(base) * 8)
                    if not exact:
                        cat = "leaf"
                copts = {"yield_unrecognized_packet_errors": True}
                if not isinstance(p, bytes):
                    # (also for a group copied from another generator: what matters is how THIS generator will treat it)
                    copts.update({o: v for o, v in g["opts"].items() if o in ("combine_segmented_packets", "secondary_header_bytes")})
                r, e = alone(oracle_a[g["di"]], p, 0, copts)
                if e is not None and gi_ == poison_gi and not g["opts"].get("ccsds_headers_only"):
                    pk_.append(p)
                    ct_.append("raises")
                    ad_.append(None)
                    break                    # the raising unit is this generator's last one
                if e is not None:
                    rep_ += 1
                    p, cat = fallback, "unknown"
                    r, e = alone(oracle_a[g["di"]], p, 0, {"yield_unrecognized_packet_errors": True})
                    if e is not None:
                        continue
                whole_vals = None
                if cat == "group" and base is not None:
                    # by construction: the reassembled group carries exactly the data field of the unsegmented packet it
                    # was cut from, so - if that packet alone is consumed exactly - the group must yield its user data
                    rw, ew = alone(oracle_a[g["di"]], base, 0, {"yield_unrecognized_packet_errors": True})
                    if ew is None and len(rw[0]) == 1 and rw[0][0][0] == "PKT" and rw[0][0][3] == len(base) * 8:
                        whole_vals = rw[0][0][1][7:]
                pk_.append(p)
                ct_.append(cat)
                ad_.append(r[0] if whole_vals is None else ("GROUP_OF", whole_vals))   # alone result (default options, reporting on)
            res.append((pk_, ct_, ad_))
        return res, rep_
    cls, replaced = in_pristine_child(classify)
    for g, (pk_, ct_, ad_) in zip(gens, cls):
        g["pkts"], g["cats"], g["alone_default"] = pk_, ct_, ad_
        for cat in ct_:
            if cat in ("unknown", "ambiguous", "dead_sub", "long", "group", "open_group"):
                w.probe({"unknown": "unknown_apid_packet", "ambiguous": "ambiguous_packet", "dead_sub": "dead_sub_packet",
                         "long": "long_packet", "group": "segment_group", "open_group": "unfinished_segment_group"}[cat])
    if replaced:
        w.probe("replaced_raising_packet", replaced)

    # ---- expected: each packet alone, fresh generator, separate definition objects, two orders, each order in its own
    #      child forked from the still pristine process (children 2 and 3) ------------------------------------------------
    def expectations(oracles, reverse):
        allexp = []
        for g in gens:
            seq = list(reversed(g["pkts"])) if reverse else list(g["pkts"])
            e_ = []
            for p in seq:
                res, err = alone(oracles[g["di"]], p, g["k"], g["opts"])
                e_.append(res if err is None else ("RAISES", err))
            if reverse:
                e_.reverse()
            allexp.append(e_)
        return allexp
    exp_fwd = in_pristine_child(lambda: expectations(oracle_a, False))
    exp_rev = in_pristine_child(lambda: expectations(oracle_b, True))
    def items_of(e_):
        return ("RAISES",) if e_[0] == "RAISES" else e_[0]          # items only: warnings and error texts are not the statement's
    for g, exp, exr in zip(gens, exp_fwd, exp_rev):
        g["exp"] = exp
        if [e_[0] != "RAISES" and e_[1] for e_ in exp] != [e_[0] != "RAISES" and e_[1] for e_ in exr]:
            w.probe("warnings_differ_from_alone")
        if [items_of(e_) for e_ in exp] != [items_of(e_) for e_ in exr] and out.violation is None:
            j = next(i for i in range(len(exp)) if items_of(exp[i]) != items_of(exr[i]))
            out.fail("alone_parse_depends_on_history",
                     f"parsing packet {j} of a stream alone on a fresh generator gives different results depending on which "
                     f"other packets were parsed before in the same process (category {g['cats'][j]}, options {g['opts']})")
    before = [(xf.fingerprint(d, top=False), serial(d)) for d in defs]
    shared = {}
    for g in gens:
        shared[g["di"]] = shared.get(g["di"], 0) + 1
    if any(v >= 2 for v in shared.values()):
        w.probe("shared_definition_2plus")

    # ---- sources and generator objects --------------------------------------------------------------
    socks = []
    creation_err = None
    die_after = None
    for gi, g in enumerate(gens):
        stream = b"".join(unit_stream(u, g["k"]) for u in g["pkts"])
        if g["src"] == "bytes":
            source = stream
        elif g["src"] == "file":
            w.probe("file_source")
            fail_at = ch.draw(4, "eio_at") if g["inject"] == "eio" else None
            g["raw"] = SimRaw(w, stream, fail_at=fail_at, name=f"disk{gi}")
            g["raw"].eof_budget = 8 + 6 * len(g["pkts"])       # polls at end-of-file without a yield in between (skipped packets)
            source = io.BufferedReader(g["raw"], buffer_size=ch.pick((8192, 16, 1), "bufsize"))
        else:
            w.probe("socket_source")
            pipe = Pipe(w, name=f"pipe{gi}")
            pipe.eof_budget = 8 + 6 * len(g["pkts"])
            die_after = ch.draw(len(stream) + 1, "die_after") if g["inject"] != "none" else None

            def producer(pipe=pipe, stream=stream, die_after=die_after, inject=g["inject"]):
                o = 0
                end = len(stream) if die_after is None else die_after
                while o < end:
                    n_ = 1 + ch.draw(min(end - o, 300), "wlen")
                    yield ("send", pipe, stream[o:o + n_])
                    o += n_
                    if ch.chance(1, 3, "pdelay"):
                        yield ("sleep", ch.pick((1_000, 1_000_000, 50_000_000), "sleep"))
                if inject == "rst":
                    yield ("rst", pipe)
                elif inject == "stall_timeout":
                    return                       # the link stalls: no FIN, the receive timeout must fire
                else:
                    yield ("fin", pipe)
            w.spawn(f"producer{gi}", producer())
            source = SimSocket(w, pipe, take=lambda avail: 1 + ch.draw(avail, "take_n"), name=f"sock{gi}")
            if g["inject"] == "stall_timeout":
                source.settimeout(2.0)
            g["sock"] = source
            socks.append(source)
        g["items"], g["warns"], g["state"], g["objs"] = [], [], "live", []
        g["stream_len"] = len(stream)
        g["die_after"] = die_after if g["src"] == "socket" else None
        try:
            g["gen"] = defs[g["di"]].packet_generator(source, skip_header_bytes=g["k"], buffer_read_size_bytes=g["rs"], **g["opts"])
        except Exception as e:      # noqa: BLE001 -- a library whose set-up runs eagerly may raise at creation already
            library_exception(e)
            g["gen"] = iter(())
            creation_err = creation_err or ("exception", f"{type(e).__name__}: {e} when the generator was created", gi)

    # ---- the schedule -------------------------------------------------------------------------------
    steps = 0
    last_g = None
    switches = 0
    err = creation_err
    try:
        with warnings.catch_warnings():
            warnings.simplefilter("always")
            while err is None:
                live = [i for i, g in enumerate(gens) if g["state"] == "live"]
                if not live:
                    break
                steps += 1
                if steps > 400 + 3 * sum(len(g_["pkts"]) for g_ in gens):
                    err = ("step_cap", "schedule exceeded its step cap", None)
                    break
                act = ch.weighted([(12, "next")] + [(1, f) for f in ("gen_close", "load_between_next", "direct_parse_between")
                                                    if enabled[f]], "act")
                if act == "load_between_next":
                    w.fault("load_between_next")
                    if other_xml is None:
                        od = xf.draw_doc(ch, tag="OTHER")
                        other_xml = od
                    rd = xf.draw_rendering(ch)
                    xml = xf.render(other_xml, rd)
                    bad = ch.chance(1, 3, "load_bad")
                    if bad:
                        xml = xml[:len(xml) // 2]
                    w.ev("proc", "load", rd["ns"], int(bad))
                    try:
                        load(xml, rd)
                    except Exception:       # noqa: BLE001
                        pass
                    continue
                gi = live[ch.draw(len(live), "who")]
                g = gens[gi]
                if act == "gen_close":
                    w.fault("gen_close")
                    w.ev(f"gen{gi}", "close")
                    getattr(g["gen"], "close", lambda: None)()
                    g["state"] = "abandoned"
                    continue
                if act == "direct_parse_between":
                    w.fault("direct_parse_between")
                    w.ev(f"gen{gi}", "direct_parse")
                    singles = [i_ for i_, u_ in enumerate(g["pkts"]) if isinstance(u_, bytes) and g["cats"][i_] != "raises"]
                    if singles:
                        pi = singles[ch.draw(len(singles), "dp_which")]
                        # either from plain bytes, or from the RawPacketData object the public framer yields for this
                        # packet -- the SAME object every time, so a second parse of it must give the same result
                        if ch.chance(1, 2, "dp_rawobj"):
                            if g["raws"] is None:
                                try:
                                    g["raws"] = dict(zip(singles, _packets.ccsds_generator(b"".join(g["pkts"][i_] for i_ in singles))))
                                except Exception as e:      # noqa: BLE001
                                    library_exception(e)
                                    g["raws"] = {}
                            raw_in = g["raws"].get(pi, g["pkts"][pi])
                            w.probe("direct_parse_same_raw_object")
                        else:
                            raw_in = g["pkts"][pi]
                        res = None
                        try:
                            res = xf.canon_item(defs[g["di"]].parse_ccsds_packet(CCSDSPacket(raw_data=raw_in)))
                        except Exception as e:      # noqa: BLE001
                            library_exception(e)
                            if hasattr(e, "partial_data"):
                                res = xf.canon_item(e)      # "not recognised" in whatever exception class the library uses
                            else:                           # this packet parsed alone without raising
                                err = ("exception", f"direct parse_ccsds_packet of a packet that parses alone raised "
                                                f"{type(e).__name__}: {e}", gi)
                        exp_one = g["alone_default"][pi]
                        if err is None and len(exp_one) == 1 and res != exp_one[0] and out.violation is None:
                            out.fail("direct_parse_differs_from_alone",
                                     f"parse_ccsds_packet on packet {pi} of generator {gi}'s stream (category {g['cats'][pi]}) gives "
                                     f"{str(res)[:300]} but parsing that packet alone gives {str(exp_one[0])[:300]}")
                    continue
                if last_g is not None and last_g != gi:
                    switches += 1
                    w.fault("gen_switch")
                last_g = gi
                with warnings.catch_warnings(record=True) as rec:
                    warnings.simplefilter("always")
                    item = _NOTHING
                    try:
                        item = next(g["gen"])
                    except StopIteration:
                        g["state"] = "done"
                        w.ev(f"gen{gi}", "stop")
                    except (LivenessViolation, SimDeadlock, StepBudgetExceeded) as e:
                        err = (type(e).__name__, str(e), gi)
                    except Exception as e:      # noqa: BLE001
                        library_exception(e)
                        inj = None
                        if g.get("sock") is not None and g["sock"].raised is not None:
                            inj = g["sock"].raised
                        if g.get("raw") is not None and g["raw"].raised is not None:
                            inj = g["raw"].raised
                        if inj is not None and same_io_error(e, inj):
                            # the injected I/O error of THIS generator's source came out of it: that generator is over
                            g["state"] = "failed"
                            w.fault("source_fault_" + g["inject"])
                            w.ev(f"gen{gi}", "io_error", type(e).__name__)
                        elif g["cats"] and g["cats"][-1] == "raises" and g["exp"][-1][0] == "RAISES" and \
                                g["exp"][-1][1].split(":")[0] == type(e).__name__:
                            # the decoder raised on this generator's bad packet, as it does when that packet is parsed alone
                            g["state"] = "poisoned"
                            w.fault("bad_packet_kills_generator")
                            w.ev(f"gen{gi}", "died", type(e).__name__)
                        else:
                            err = ("exception", f"{type(e).__name__}: {e}", gi)
                if item is not _NOTHING:
                    g["items"].append(xf.canon_item(item))          # (harness code: outside the library try block)
                    g["objs"].append(item)                          # kept: what was yielded must still look the same at the end
                    w.ev(f"gen{gi}", "item", g["items"][-1][0])
                g["warns"] += [(w_.category.__name__, str(w_.message)) for w_ in rec]
    finally:
        for g in gens:
            try:
                g["gen"].close()
            except Exception:      # noqa: BLE001
                pass
        for s in socks:
            s.close()

    # ---- oracle -----------------------------------------------------------------------------------
    def describe(gi):
        g = gens[gi]
        return (f"generator {gi} (definition {g['di']}, options {g['opts']}, k={g['k']}, read_size={g['rs']}, source {g['src']}, "
                f"units {''.join(CAT_LETTER[c] for c in g['cats'])})")

    if out.violation is None and err is not None:
        out.fail("exception" if err[0] == "exception" else err[0],
                 f"{err[1]} while advancing {describe(err[2]) if err[2] is not None else 'the schedule'}")
    if out.violation is None:
        for gi, g in enumerate(gens):
            exp_items, exp_warns, upto = [], [], []
            for pi, e in enumerate(g["exp"]):
                if e[0] == "RAISES":
                    continue
                exp_items += list(e[0])
                exp_warns += list(e[1])
                upto += [len(exp_warns)] * len(e[0])
            got = g["items"]
            faulted = g["inject"] != "none" and (
                (g.get("sock") is not None and (g["sock"].raised is not None or g["inject"] in ("rst", "stall_timeout")))
                or (g.get("raw") is not None and g["raw"].raised is not None))
            if g["cats"] and g["cats"][-1] == "raises" and g["state"] in ("poisoned", "done"):
                # everything before the bad unit was yielded; what comes out of the bad unit itself (a group may yield an
                # interposed packet before its reassembly raises; a generator that does not die may yield anything) is not judged
                ok_items = got[:len(exp_items)] == exp_items
            elif g["cats"] and g["cats"][-1] == "raises":
                # abandoned (closed by the schedule) before or inside the bad unit: the same, on what was yielded so far
                ok_items = got[:len(exp_items)] == exp_items[:len(got)]
            elif g["state"] == "done" and not faulted:
                ok_items = got == exp_items
            else:
                # abandoned, failed with the injected error, or ended gracefully although its own source had failed / was cut:
                # what it yielded must be a prefix of the alone results (the statement says nothing about I/O errors)
                ok_items = got == exp_items[:len(got)]
            if not ok_items:
                j = 0
                while j < len(got) and j < len(exp_items) and got[j] == exp_items[j]:
                    j += 1
                gj = got[j] if j < len(got) else "(nothing)"
                ej = exp_items[j] if j < len(exp_items) else "(nothing)"
                out.fail("interleaved_differs_from_alone",
                         f"{describe(gi)}: item {j} is {str(gj)[:300]} but parsing that packet alone gives {str(ej)[:300]} "
                         f"({len(got)} items observed, {len(exp_items)} expected, generator {g['state']})")
                break
            if g["cats"] and g["cats"][-1] == "raises":
                ok_w = g["warns"][:len(exp_warns)] == exp_warns[:len(g["warns"])]
            elif g["state"] == "done" and not faulted:
                ok_w = g["warns"] == exp_warns
            elif g["state"] == "failed" or faulted:
                # the failing step may have handled (and warned about) skipped packets before the error surfaced
                lo = upto[len(got) - 1] if got else 0
                ok_w = len(g["warns"]) >= lo and g["warns"] == exp_warns[:len(g["warns"])]
            elif got:
                # abandoned after m items: warnings seen so far are those of every packet up to the one that produced item m
                # (more may follow if the abandoned step was cut inside skipped packets -- it was not: close() happens between steps)
                ok_w = g["warns"] == exp_warns[:upto[len(got) - 1]]
            else:
                ok_w = g["warns"] == []
            if not ok_w:
                # the statement is about the ITEMS; warnings (texts, counts, rate limiting) are not part of it, so a difference
                # is recorded as a probe and never as a violation
                w.probe("warnings_differ_from_alone")
            # by construction
            if g["state"] == "done" and not faulted and not g["opts"].get("ccsds_headers_only") and "raises" not in g["cats"]:
                doc = docs[g["di"]]
                pos = 0
                for pi, (p, cat) in enumerate(zip(g["pkts"], g["cats"])):
                    e = g["exp"][pi]
                    n_it = 0 if e[0] == "RAISES" else len(e[0])
                    mine = got[pos:pos + n_it]
                    pos += n_it
                    default_root = g["opts"].get("root_container_name", "CCSDSPacket") == "CCSDSPacket"
                    unrec = default_root and ((cat in ("ambiguous", "dead_sub")) or (cat == "unknown" and doc.root_abstract))
                    if unrec:
                        if g["opts"].get("yield_unrecognized_packet_errors"):
                            hv = factory.header_tuple(p)
                            good = (len(mine) == 1 and mine[0][0] == "ERR" and mine[0][2] is not None and
                                    mine[0][2][0] == "PKT" and
                                    [v[1][4] for v in mine[0][2][1][:7]] == list(hv))
                            if not good:
                                out.fail("unrecognized_not_reported",
                                         f"{describe(gi)}: packet {pi} ({cat}) must appear as one error object carrying the seven "
                                         f"header values {hv}; got {str(mine)[:300]}")
                                break
                        elif mine:
                            out.fail("unrecognized_yielded", f"{describe(gi)}: packet {pi} ({cat}) must be skipped silently; got "
                                                             f"{str(mine)[:200]}")
                            break
                    elif cat == "group" and default_root and g["alone_default"][pi][0] == "GROUP_OF":
                        want = g["alone_default"][pi][1]
                        if not any(it_[0] == "PKT" and it_[1][7:] == want for it_ in mine):
                            out.fail("complete_group_not_yielded",
                                     f"{describe(gi)}: unit {pi} is a complete in-sequence segment group cut from a packet that is "
                                     f"consumed exactly when sent unsegmented; its reassembly must be yielded with the same user "
                                     f"data ({len(want)} fields); got {str(mine)[:200]}")
                            break
                    elif cat == "long" and default_root and g["opts"].get("parse_bad_pkts") is False and mine:
                        out.fail("bad_length_packet_yielded", f"{describe(gi)}: over-long packet {pi} must be withheld with "
                                                              f"parse_bad_pkts=False; got {str(mine)[:200]}")
                        break
                if out.violation is not None:
                    break
    if out.violation is None:
        # items already handed to the caller must not change when the generator (or any other) is advanced further
        for gi, g in enumerate(gens):
            for j, obj in enumerate(g["objs"]):
                now = xf.canon_item(obj)
                if now != g["items"][j]:
                    out.fail("yielded_item_changed_later",
                             f"{describe(gi)}: item {j} was {str(g['items'][j])[:250]} when it was yielded but is "
                             f"{str(now)[:250]} after the generators were advanced further")
                    break
            if out.violation is not None:
                break
    if out.violation is None:
        for i, d in enumerate(defs):
            after = (xf.fingerprint(d, top=False), serial(d))
            if after != before[i]:
                out.fail("definition_modified", f"definition {i} is not the same after parsing as before "
                                                f"({'fingerprint' if after[0] != before[i][0] else 'serialisation'} differs)")
                break

    out.log = w.log
    out.faults = w.faults
    out.probes = w.probes
    out.sim_ns = w.now
    out.sched = tuple((e[2], e[3]) for e in w.log if e[2].startswith("gen") or e[2] == "proc")
    interesting = any(c in ("unknown", "ambiguous", "dead_sub", "long", "group", "open_group") for g in gens for c in g["cats"][:-1])
    out.nontrivial = (switches >= 1 and any(v >= 2 for v in shared.values())) or interesting
    if render:
        out.sample = {
            "documents": [{"name": d.name, "features": sorted(d.features), "rendering": f"{r['ns']}/{r['comments']}/{r['ws']}"}
                          for d, r in zip(docs, rds)],
            "generators": [{"definition": g["di"], "options": g["opts"], "skip_header_bytes": g["k"], "read_size": g["rs"],
                            "source": g["src"], "packets": "".join(CAT_LETTER[c] for c in g["cats"]),
                            "items": len(g["items"]), "warnings": len(g["warns"]), "final_state": g["state"]} for g in gens],
            "schedule": [f"{e[2]}:{e[3]}" for e in w.log if e[2].startswith("gen") or e[2] == "proc"][:80],
            "switches": switches, "replaced_raising_packets": replaced,
            "result": out.violation or "ok",
        }
    return out
