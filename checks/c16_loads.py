"""C16 -- loading is independent of lexical spelling and of earlier loads.

The simulation target is the *history*: ``NamespaceAwareElement._nsmap / _ns_prefix`` are
process-wide and written by every load. Each run is one freshly forked process in which a seeded
history of 2-12 operations is executed over 1-3 documents of the XTCE family: successful loads in
any namespace convention / comment placement / whitespace style and through any input kind
(str path, Path, binary file object on the simulated disk, load_xml), and failing loads as faults
(malformed XML, XML file torn at a drawn byte, wrong xtce_ns_prefix, dangling parameterRef,
unsupported parameter type, disk I/O error mid-document), plus uses of earlier definitions between
loads (parse, serialise, construct an empty definition).

Oracle: for every successful-load operation, fingerprint(result) and the decode of the document's
fixed probe-packet set equal the *baseline* of that document: the same two values computed in a
child forked from the pristine process state that loads the canonical rendering (prefix 'xtce',
compact, no comments) as its first and only load. That is the property verbatim.
"""
import io
import os
import pathlib
import pickle
import shutil
import tempfile
import warnings
import zlib

from sim import factory
from sim import xtce_family as xf
from sim.kernel import HarnessBug, library_exception, SimRaw, World
from sim.procs import in_pristine_child
from sim.runner import Outcome

ID = "C16"
LEVEL = "exploration"
ISOLATE = True
RUN_WALL_S = 150
TIERS = {
    "quick": {"cases": 4_000, "episode": 1, "selftest": 48, "wall_cap_s": 900, "shrink_s": 90},
    "thorough": {"cases": 1_000_000, "episode": 1, "selftest": 512, "wall_cap_s": 4 * 3600, "shrink_s": 180},
}
RULE = ("each case is one freshly forked process running a drawn history of 2-12 operations over 1-3 drawn XTCE-family "
        "documents: load_ok(doc, rendering = namespace convention x comment placement x whitespace style, via = str path / "
        "Path / binary file object on the simulated disk / load_xml), failing loads (malformed, torn file, wrong prefix, "
        "dangling parameterRef, unsupported type, disk I/O error) and uses of earlier definitions; the last operation is "
        "always a judged load; non-trivial = at least two loads with different namespace conventions or a failing load "
        "before a judged load or a non-canonical rendering judged; distinct = distinct choice lists")
COMPONENTS = {
    "real": ["XtcePacketDefinition.from_xtce / space_packet_parser.load_xml / to_xml_tree / packet_generator", "lxml parser",
             "real temp files for path inputs", "io.BufferedReader"],
    "stub": ["XTCE-family document generator and renderer (namespace conventions, comments, whitespace)",
             "simulated disk for file-object inputs (torn documents, EIO mid-read)",
             "baseline child forked from the pristine process state"],
}
ASSUMPTIONS = [
    "comments and whitespace are placed only between elements (element-only content), never inside text-bearing elements",
    "a no-namespace rendering declares no namespaces at all; prefix and default-namespace renderings may also declare xsi",
    "the fingerprint is a reflective walk of the loaded definition (class names, public attributes, lists and dicts in "
    "order, floats by repr, callables probed at 0,1,2) excluding ns / xtce_ns_prefix / xtce_schema_uri; it is only ever "
    "compared between two results of the same code",
    "the namespace bookkeeping (ns, xtce_ns_prefix, xtce_schema_uri) and the serialisation legitimately differ between "
    "renderings, so they are compared with a second baseline: the SAME bytes loaded as the first and only load of a "
    "pristine child (the whole history is drawn before anything is loaded, so all baselines exist beforehand)",
    "failing loads are history, not judged (whether they raise is C17's business)",
    "sequential histories only (no threads)",
]


def vacuity(agg):
    n = agg.probes.get("baseline_unloadable", 0)
    if agg.evaluations and n * 2 > agg.evaluations:
        return (f"in {n} of {agg.evaluations} runs the canonical rendering did not load as the first load of a pristine "
                f"process; nothing could be judged there")
    return None


EXPECTED_PROBES = ("chain_prefix_default_none", "judged_after_malformed", "judged_after_torn", "judged_after_wrong_prefix",
                   "judged_after_dangling", "judged_after_unsupported", "judged_after_io_error", "non_ascii_prefix",
                   "comment_in_list", "context_calibrator_doc", "via_path", "via_str", "via_fileobj", "via_load_xml",
                   "use_earlier_after_other_ns", "path_reused_for_other_content", "sibling_document")

_packets = factory.import_library()
import space_packet_parser  # noqa: E402
from space_packet_parser.xtce.definitions import XtcePacketDefinition  # noqa: E402
import lxml.etree as _ET  # noqa: E402

BAD_KINDS = ("malformed", "torn", "wrong_prefix", "dangling", "unsupported", "io_error")


def decode_all(defn, pkts):
    out = []
    with warnings.catch_warnings():
        warnings.simplefilter("ignore")
        for p in pkts:
            try:
                items = list(defn.packet_generator(p, yield_unrecognized_packet_errors=True))
            except Exception as e:      # deterministic decoder errors are part of the meaning too
                out.append(("RAISES", type(e).__name__))
                continue
            out.append(tuple(xf.canon_item(i) for i in items))      # (harness code: outside the try)
    return tuple(out)


def baseline_in_pristine_child(xml_bytes, pkts):
    """Fork before this process has loaded anything; the child loads the canonical rendering as its first and only
    load and returns ("ok", fingerprint, decodes) or ("error", text, None)."""
    def job():
        with warnings.catch_warnings():
            warnings.simplefilter("ignore")
            try:
                d = XtcePacketDefinition.from_xtce(io.BytesIO(xml_bytes))
            except Exception as e:      # noqa: BLE001  (the library call, and only the library call)
                library_exception(e)
                return ("load_error", f"{type(e).__name__}: {e}")
        return ("loaded", xf.fingerprint(d), decode_all(d, pkts))
    res = in_pristine_child(job, wall_s=100, raise_errors=False)
    if res[0] != "ok":
        # anything else that went wrong in the child is harness code failing, never "the document does not load"
        raise HarnessBug("baseline child failed outside the library call: " + str(res[1]))
    r = res[1]
    return ("ok", r[1], r[2]) if r[0] == "loaded" else ("error", r[1], None)


def mutate_bad(kind, doc, rd, ch, w):
    """Return (xml bytes, prefix argument, disk fault) for a failing load of ``doc``."""
    xml = xf.render(doc, rd)
    prefix = xf.ns_prefix_arg(rd)
    fail_at = None
    if kind == "malformed":
        cut = ch.draw(max(1, len(xml) - 40), "mal_at") + 20
        how = ch.draw(3, "mal_how")
        if how == 0:
            xml = xml[:cut] + b"<" + xml[cut:]
        elif how == 1:
            xml = xml.replace(b"</", b"<", 1)
        else:
            xml = xml[:cut] + b"\x00\xff&;" + xml[cut:]
    elif kind == "torn":
        xml = xml[:ch.draw(len(xml), "torn_at")]
    elif kind == "wrong_prefix":
        prefix = ch.pick(("nope", "xsi", None if prefix is not None else "xtce"), "wrong_prefix")
        if prefix is None and rd["ns"] != "prefix":
            prefix = "nope"
    elif kind == "dangling":
        pre = (rd["prefix"] + ":") if rd["ns"] == "prefix" else ""
        needle = f'<{pre}ParameterRefEntry parameterRef="'.encode()
        i = xml.rfind(needle)
        if i >= 0:
            xml = xml[:i + len(needle)] + b"NO_SUCH_" + xml[i + len(needle):]
    elif kind == "unsupported":
        pre = (rd["prefix"] + ":") if rd["ns"] == "prefix" else ""
        needle = f"</{pre}ParameterTypeSet>".encode()
        xml = xml.replace(needle, f'<{pre}ArrayParameterType name="ARR" arrayTypeRef="VERSION_Type"/>'.encode() + needle, 1)
    elif kind == "io_error":
        fail_at = ch.draw(3, "eio_at")
    return xml, prefix, fail_at


def full_view(defn):
    """Everything about a definition incl. the namespace bookkeeping and how it serialises."""
    try:
        ser = zlib.crc32(_ET.tostring(defn.to_xml_tree()))
    except Exception as e:      # noqa: BLE001
        ser = ("RAISES", type(e).__name__)
    return (xf.fingerprint(defn, top=False), ser)


def same_rendering_first(xml_bytes, prefix):
    """Baseline for the namespace bookkeeping and the serialisation: the SAME bytes loaded as the first and only
    load of a pristine process."""
    def job():
        with warnings.catch_warnings():
            warnings.simplefilter("ignore")
            try:
                d = XtcePacketDefinition.from_xtce(io.BytesIO(xml_bytes), xtce_ns_prefix=prefix)
            except Exception as e:      # noqa: BLE001
                library_exception(e)
                return ("load_error", f"{type(e).__name__}: {e}")
        return ("loaded", full_view(d))
    res = in_pristine_child(job, wall_s=100, raise_errors=False)
    if res[0] != "ok":
        raise HarnessBug("same-bytes-first child failed outside the library call: " + str(res[1]))
    r = res[1]
    return ("ok", r[1]) if r[0] == "loaded" else ("error", r[1])


def run(ch, render=False):
    out = Outcome()
    w = World(ch, max_steps=10_000)
    n_docs = 1 + ch.draw(3, "n_docs")
    docs = []
    for i in range(n_docs):
        if docs and ch.chance(1, 3, "sibling"):
            # a revision of an earlier document of this history: same name, header and names, one thing differs
            docs.append(xf.sibling(docs[ch.draw(len(docs), "sibling_of")], ch))
            w.probe("sibling_document")
        else:
            docs.append(xf.draw_doc(ch, tag=f"D{i}"))
    pkts = [xf.probe_packets(d) for d in docs]
    canon = [xf.render(d, xf.CANONICAL) for d in docs]
    for d in docs:
        if "context_calibrator" in d.features:
            w.probe("context_calibrator_doc")
    enabled = [k for k in BAD_KINDS if ch.chance(1, 2, "en_" + k)]

    # ---- phase A: draw the whole history (so that every baseline can be computed before anything is loaded) ----
    n_ops = 2 + ch.draw(11, "n_ops")
    plan = []
    n_loaded = 0
    for opi in range(n_ops):
        if opi == n_ops - 1:
            op = "load_ok"
        else:
            pairs = [(6, "load_ok")] + [(1, "bad_" + k) for k in enabled]
            if n_loaded:
                pairs += [(2, "use_earlier"), (1, "serialize_earlier")]
            pairs += [(1, "construct_empty")]
            op = ch.weighted(pairs, "op")
        e = dict(op=op)
        if op == "load_ok" or op.startswith("bad_"):
            di = ch.draw(n_docs, "doc")
            rd = xf.draw_rendering(ch)
            if op == "load_ok":
                xml, prefix, fail_at = xf.render(docs[di], rd), xf.ns_prefix_arg(rd), None
                vias = ["fileobj", "str", "path"] + (["load_xml"] if (rd["ns"] == "prefix" and rd["prefix"] == "xtce") else [])
                n_loaded += 1
            else:
                xml, prefix, fail_at = mutate_bad(op[4:], docs[di], rd, ch, w)
                vias = ["fileobj", "str", "path"] if fail_at is None else ["fileobj"]
            via = ch.pick(vias, "via")
            e.update(di=di, rd=rd, xml=xml, prefix=prefix, fail_at=fail_at, via=via,
                     bufsize=ch.pick((8192, 512, 64), "bufsize") if via == "fileobj" else None,
                     # few path names, re-used: a later document is often written to a path an earlier one was loaded from
                     fname=ch.pick(("doc.xml", "other.xml", "doc.xml", "third.xml"), "fname") if via != "fileobj" else None)
        elif op in ("use_earlier", "serialize_earlier"):
            e.update(which=ch.draw(n_loaded, "which"))
        plan.append(e)

    # ---- phase B: baselines, each in a child forked from the pristine state (nothing loaded yet) ----------
    # (the canonical rendering names the XTCE namespace by the same URI as the rendering it is compared with: which URI a
    # document uses is part of the document, not of its spelling; a rendering without any namespace is compared with the
    # default one)
    def buri_of(rd_):
        return rd_["uri"] if rd_["ns"] != "none" else xf.XTCE_URI
    base = {}
    wanted = [(i, xf.XTCE_URI) for i in range(n_docs)] + [(e["di"], buri_of(e["rd"])) for e in plan if "rd" in e]
    for (i, u) in wanted:
        if (i, u) in base:
            continue
        res = baseline_in_pristine_child(canon[i] if u == xf.XTCE_URI else xf.render(docs[i], dict(xf.CANONICAL, uri=u)), pkts[i])
        base[(i, u)] = res
        # (only the fingerprint of a loadable baseline goes into the event log: an error text may contain addresses)
        w.ev("baseline", "computed", i, res[0], zlib.crc32(repr(res[1]).encode()) if res[0] == "ok" else res[1].split(":")[0])
    # a document whose canonical rendering does not load as the first load has no definition to compare with; the
    # only thing the property then says is that it must not load under any other spelling or history either
    unloadable = {ku: b[0] != "ok" for ku, b in base.items()}
    if any(unloadable.values()):
        w.probe("baseline_unloadable")
    same_first = {}
    for e in plan:
        if e["op"] == "load_ok":
            key = (e["di"], zlib.crc32(e["xml"]), e["prefix"], buri_of(e["rd"]))
            if key not in same_first:
                same_first[key] = same_rendering_first(e["xml"], e["prefix"])
            e["key"] = key

    # ---- phase C: execute the history -----------------------------------------------------------------------
    tmpdir = tempfile.mkdtemp(prefix="verif_c16_")
    trace = []
    loaded = []               # (doc index, definition, ns convention, key) of successful loads so far
    conventions = []
    prev_bad = None
    judged_noncanon = False
    bad_before_judged = False
    used_paths = {}

    def judge(i, defn, what, rd_desc, key):
        fp = xf.fingerprint(defn)
        bl = base[(i, key[3])]
        if fp != bl[1]:
            # locate the first difference for the message
            a, b = repr(fp), repr(bl[1])
            j = 0
            while j < min(len(a), len(b)) and a[j] == b[j]:
                j += 1
            out.fail("definition_differs", f"{what}: definition differs from the load-it-first baseline near "
                                           f"...{a[max(0, j - 60):j + 60]!r} vs ...{b[max(0, j - 60):j + 60]!r} ({rd_desc})",
                     "definition_differs")
            return False
        sf = same_first[key]
        if sf[0] != "ok":
            # these very bytes do NOT load as the first load of a pristine process, yet they loaded here
            out.fail("loads_only_after_other_loads",
                     f"{what}: this rendering loads in this history, but the same bytes fail as the first and only load of a "
                     f"pristine process with {sf[1].split(':')[0]} ({rd_desc})", "loads_only_after_other_loads")
            return False
        fv = full_view(defn)        # taken before decoding, as in the baseline child
        dec = decode_all(defn, pkts[i])
        if dec != bl[2]:
            out.fail("decode_differs", f"{what}: probe packets decode differently from the load-it-first baseline "
                                       f"({rd_desc})", "decode_differs")
            return False
        if True:
            if fv[0] != sf[1][0]:
                a, b = repr(fv[0]), repr(sf[1][0])
                j = 0
                while j < min(len(a), len(b)) and a[j] == b[j]:
                    j += 1
                out.fail("namespace_bookkeeping_differs",
                         f"{what}: the definition (incl. ns / xtce_ns_prefix / xtce_schema_uri) differs from loading the same "
                         f"bytes first near ...{a[max(0, j - 60):j + 60]!r} vs ...{b[max(0, j - 60):j + 60]!r} ({rd_desc})",
                         "namespace_bookkeeping_differs")
                return False
            if fv[1] != sf[1][1]:
                out.fail("serialisation_differs", f"{what}: to_xml_tree() serialises differently from the same bytes loaded "
                                                  f"first ({rd_desc})", "serialisation_differs")
                return False
        return True

    try:
        with warnings.catch_warnings():
            warnings.simplefilter("ignore")
            for opi, e in enumerate(plan):
                op = e["op"]
                if op == "load_ok" or op.startswith("bad_"):
                    di, rd, xml, prefix, fail_at, via = e["di"], e["rd"], e["xml"], e["prefix"], e["fail_at"], e["via"]
                    rd_desc = (f"doc {di} ns={rd['ns']}" + (f":{rd['prefix']}" if rd["prefix"] else "") +
                               f" comments={rd['comments']} ws={rd['ws']}")
                    if via == "fileobj":
                        src = io.BufferedReader(SimRaw(w, xml, fail_at=fail_at), buffer_size=e["bufsize"])
                    else:
                        pth = os.path.join(tmpdir, e["fname"])
                        if pth in used_paths and used_paths[pth] != zlib.crc32(xml):
                            w.probe("path_reused_for_other_content")
                        used_paths[pth] = zlib.crc32(xml)
                        with open(pth, "wb") as f:
                            f.write(xml)
                        src = pth if via in ("str", "load_xml") else pathlib.Path(pth)
                    w.ev("proc", op, di, rd["ns"], rd["prefix"] or "", rd["comments"], rd["ws"], via, zlib.crc32(xml))
                    err = None
                    defn = None
                    try:
                        if via == "load_xml":
                            defn = space_packet_parser.load_xml(src)
                        else:
                            defn = XtcePacketDefinition.from_xtce(src, xtce_ns_prefix=prefix)
                    except Exception as ex:
                        err = ex
                    trace.append(f"{opi}: {op} {rd_desc} via={via}" + (f" ({e['fname']})" if e["fname"] else "") + " -> " +
                                 ("ok" if err is None else f"{type(err).__name__}: {str(err)[:80]}"))
                    if op == "load_ok":
                        w.probe("via_" + via)
                        if rd["prefix"] and not rd["prefix"].isascii():
                            w.probe("non_ascii_prefix")
                        if rd["comments"] in ("lists", "everywhere"):
                            w.probe("comment_in_list")
                        if prev_bad:
                            w.probe("judged_after_" + prev_bad)
                        conventions.append(rd["ns"])
                        if len(conventions) >= 3 and len(set(conventions[-3:])) == 3:
                            w.probe("chain_prefix_default_none")
                        if rd != xf.CANONICAL:
                            judged_noncanon = True
                        if unloadable[(di, buri_of(rd))]:
                            if err is None:
                                out.fail("loads_only_in_some_spellings",
                                         f"operation {opi}: {rd_desc} via {via} loads, but the canonical rendering (prefix xtce, "
                                         f"compact, no comments) of the same document fails as the first load of a pristine "
                                         f"process with {base[(di, buri_of(rd))][1]}", "loads_only_in_some_spellings")
                                break
                            loaded.append(None)
                            prev_bad = None
                            continue
                        if err is not None:
                            out.fail("load_failed", f"operation {opi}: loading {rd_desc} via {via} raised "
                                                    f"{type(err).__name__}: {err}; the canonical rendering loads as first load",
                                     f"load_failed|{type(err).__name__}")
                            break
                        if not judge(di, defn, f"operation {opi} ({op} via {via})", rd_desc, e["key"]):
                            break
                        loaded.append((di, defn, rd["ns"], e["key"]))
                        prev_bad = None
                    else:
                        w.fault("load_" + op[4:])
                        if err is None:
                            w.probe("bad_load_succeeded_" + op[4:])
                        prev_bad = op[4:]
                        bad_before_judged = True
                elif op in ("use_earlier", "serialize_earlier") and loaded[e["which"]] is None:
                    continue                # refers to a document that cannot be loaded in any spelling
                elif op == "use_earlier":
                    di, defn, nsc, key = loaded[e["which"]]
                    w.ev("proc", op, di)
                    if conventions and conventions[-1] != nsc:
                        w.probe("use_earlier_after_other_ns")
                    trace.append(f"{opi}: use definition of doc {di} loaded earlier ({nsc})")
                    if not judge(di, defn, f"operation {opi} (use of a definition loaded earlier)", f"doc {di}, loaded as {nsc}", key):
                        break
                elif op == "serialize_earlier":
                    di, defn, nsc, key = loaded[e["which"]]
                    w.ev("proc", op, di)
                    trace.append(f"{opi}: serialise definition of doc {di}")
                    try:
                        defn.to_xml_tree()
                    except Exception as ex:
                        trace[-1] += f" -> {type(ex).__name__}"
                else:
                    w.ev("proc", op)
                    trace.append(f"{opi}: construct empty XtcePacketDefinition()")
                    try:
                        XtcePacketDefinition()
                    except Exception as ex:
                        trace[-1] += f" -> {type(ex).__name__}"
    finally:
        shutil.rmtree(tmpdir, ignore_errors=True)

    out.log = w.log
    out.faults = w.faults
    out.probes = w.probes
    out.sim_ns = w.now
    out.nontrivial = len(set(conventions)) >= 2 or bad_before_judged or judged_noncanon
    out.sched = tuple((e[3],) + tuple(e[5:10]) for e in w.log if e[2] == "proc")
    if render:
        out.sample = {"documents": [{"name": d.name, "features": sorted(d.features), "leaves": len(d.leaves),
                                     "canonical_bytes": len(canon[i])} for i, d in enumerate(docs)],
                      "enabled_fault_kinds": enabled, "history": trace, "result": out.violation or "ok"}
    return out
