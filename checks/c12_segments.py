"""C12 -- segmented packets are reassembled per APID exactly once and only when complete.

Simulated: instrument producers (one per APID, own 14-bit counter) emit unsegmented messages and
messages split into FIRST / CONTINUATION* / LAST segments; a multiplexer interleaves them by
seeded timing; the *space link* drops, duplicates, delays (reorders), flag-flips and count-jumps
packets and producers restart (counter reset). What leaves the link is the history; each arrival's
data field is stamped with its arrival index at delivery (duplicates are distinct arrivals; in half of
the runs a duplicate is byte-identical to its original, as on a real link).
The history is handed to the real packet_generator(combine_segmented_packets=True,
secondary_header_bytes=sh) through a simulated socket that delivers exactly one arrival per
recv (primary configuration: every output and warning is attributable to one arrival), or as
bytes / simulated disk file / fragmented socket (whole output sequence compared).

Oracle: a 25-line per-APID reference model, run as an acceptor over (position in the output list,
per-APID state) configurations. An UNSEGMENTED packet arriving while a group of its APID is open
is parsed alone and leaves the group untouched (the statement enumerates the cases in which
packets are dropped, and this is not one of them).
"""
import io
import logging
import warnings

from sim import factory
from sim.kernel import library_exception, LivenessViolation, Pipe, SimDeadlock, SimRaw, SimSocket, StepBudgetExceeded, World
from sim.runner import Outcome

ID = "C12"
LEVEL = "exploration"
RUN_WALL_S = 90
SYS_MAX_LEN = 4
SYSTEMATIC_STRIDE = 2          # even case indices 0..139806 are the systematic sweep, odd ones (and all later ones) are drawn
TIERS = {
    "quick": {"cases": 160_000, "episode": 400, "selftest": 96, "wall_cap_s": 600, "shrink_s": 45},
    "thorough": {"cases": 20_000_000, "episode": 2000, "selftest": 1024, "wall_cap_s": 3 * 3600, "shrink_s": 120},
}
RULE = ("the even case indices 0..139806 are the systematic sweep of every history of length 1..4 over {UNSEG,FIRST,CONT,LAST} x 2 APIDs x "
        "{in-sequence, gap} (a warm-up for short histories); later cases draw, from one seed, either a direct history "
        "(flag, APID, counter step per arrival; up to 60 arrivals, 1-4 APIDs incl. 0 and 2047 -- or 33-48 APIDs each with "
        "an open group --, counters starting near 16383, version/type/secondary-header bits varying between segments) or a producer/multiplexer/space-link simulation with drop, dup, delay-reorder, flag-flip, count-jump and "
        "producer-restart faults; plus secondary-header length, skip prefix, source kind, read size. non-trivial = the "
        "history contains at least one FIRST/CONT/LAST arrival; distinct = distinct choice lists")
COMPONENTS = {
    "real": ["XtcePacketDefinition.packet_generator(combine_segmented_packets=True) incl. the real ccsds_generator framer",
             "XtcePacketDefinition.from_xtce (header-only document)", "io.BufferedReader", "warnings machinery"],
    "stub": ["instrument producers (one per APID, 14-bit counters)", "multiplexer (event timing)",
             "space link (drop / dup / delay-reorder / flag-flip / count-jump / producer restart / link cut at a drawn byte)",
             "SimSocket delivering one arrival per recv", "second downlink (own generator on the same definition, advanced between outputs of the first)", "SimRaw disk", "25-line per-APID reassembly reference model"],
}
ASSUMPTIONS = [
    "an UNSEGMENTED packet arriving while a group of the same APID is open is parsed alone and does not end that group "
    "(the statement's list of dropped packets does not include this case); every history has exactly one accepted behaviour",
    "the verdict on outputs is the SEQUENCE of outputs against the model; WHEN an output is yielded relative to the framer "
    "being pulled is not judged (a library may frame ahead). Warnings are judged only in runs where the attribution seam is "
    "validated by the outputs (every output yielded while its completing arrival was the last one pulled, at least one "
    "before the end of the stream); otherwise they are unjudged (probes attribution_inconsistent / attribution_unvalidated)",
    "a 'warning' is a warnings.warn() of any category and text, or a WARNING-level log record of a space_packet_parser "
    "logger (the framer's own logger is ignored when the stream has a torn tail); a warning is required at the FIRST orphan "
    "segment and at the FIRST gapped group of each APID (later ones may be rate-limited); warnings are required only at arrivals the model drops with a warning: CONT/LAST with no "
    "open group and a LAST closing a group with a sequence gap; only in the one-arrival-per-recv configuration, where a "
    "warning is attributable to an arrival; all other warnings are unjudged",
    "outputs are compared by raw_data; the definition is header-only so decoded values are not in play",
    "sampled, not exhaustive (except the length<=4 sweep): a clean batch is evidence, not proof",
]
EXPECTED_PROBES = ("wrap_in_group", "three_apids_open", "orphan_after_complete", "orphan_after_rejected", "sh_gt_segment",
                   "u_while_open", "superseded_first", "group_emitted", "group_gap_rejected", "drop", "dup", "reorder",
                   "flag_flip", "count_jump", "producer_restart", "link_cut", "header_bits_vary", "wide_open_groups", "warnings_judged",
                   "group_len_ge_17", "combined_gt_65542", "second_downlink", "identical_duplicate")
COV_UNIVERSE = 32

U, F, C, L = factory.FLAG_UNSEG, factory.FLAG_FIRST, factory.FLAG_CONT, factory.FLAG_LAST
FLAG_ORDER = (U, F, C, L)          # index 0 = simplest
FLAG_NAME = {U: "U", F: "F", C: "C", L: "L"}
APID_SETS = ((5, 2047), (0, 2047), (0, 1, 2047), (0, 7, 1024, 2047), (11,))
MODE_DIRECT_SIMPLE = 0

_packets = factory.import_library()
_defn = None


def setup_process():
    global _defn
    _defn = factory.load_header_only_definition()


def systematic():
    """All histories of length 1..4: per arrival (flag 4) x (apid 2) x (seq 2) = 16 symbols."""
    out = []
    for n in range(1, SYS_MAX_LEN + 1):
        for code in range(16 ** n):
            pre = [MODE_DIRECT_SIMPLE, n - 1]
            c = code
            for _ in range(n):
                sym = c % 16
                c //= 16
                pre += [sym & 3, (sym >> 2) & 1, (sym >> 3) & 1]
            out.append(pre)
    return out


# ---------------------------------------------------------------------------------------
# reference model (nondeterministic acceptor)
# ---------------------------------------------------------------------------------------

def transitions(state, i, flag, consecutive):
    """state: None (no open group) or tuple of arrival indices. Returns list of
    (new_state, emitted_indices_or_None, warning_required)."""
    if flag == U:
        # an unsegmented packet is parsed alone and does not touch the group of its APID: the statement lists every
        # case in which packets are dropped (orphans, gapped groups, a group superseded by a new FIRST) and an
        # interposed UNSEGMENTED packet is not among them, so FIRST .. LAST with consecutive counts is still one packet
        return [(state, (i,), False)]
    if flag == F:
        return [((i,), None, False)]
    if state is None:
        return [(None, None, True)]                              # orphan CONT / LAST
    if flag == C:
        return [(state + (i,), None, False)]
    g = state + (i,)
    if consecutive(g):
        return [(None, g, False)]
    return [(None, None, True)]                                  # LAST closing a gapped group


def header_apid(pkt):
    return int.from_bytes(pkt[0:2], "big") & 0x7FF


def expected_raw(arrivals, idxs, sh):
    first = arrivals[idxs[0]][3]
    return first + b"".join(arrivals[j][3][6 + sh:] for j in idxs[1:])


def run(ch, render=False):
    out = Outcome()
    w = World(ch, max_steps=100_000)
    mode = ch.weighted([(1, "direct_simple"), (5, "direct"), (6, "link"), (1, "long")], "mode")
    cov = set()

    # ---- knobs ---------------------------------------------------------------------------
    if mode == "direct_simple":
        n = 1 + ch.draw(SYS_MAX_LEN, "n")
        apids = APID_SETS[0]
        sh = 0
        k = 0
        srckind = "socket1"
        rs = 1 << 17
        starts = [16382, 3]
        wide = False
    else:
        apids = ch.pick(APID_SETS, "apids")
        sh = ch.weighted([(4, 0), (1, 1), (1, 2), (1, 4), (1, 8), (1, 3), (1, 100)], "sh")
        k = ch.weighted([(8, 0), (1, 4), (1, 1)], "k")
        srckind = ch.weighted([(6, "socket1"), (2, "bytes"), (2, "file"), (2, "socketfrag")], "source")
        rs = ch.pick((None, 1 << 17, 7, 1, 4096), "read_size") if srckind != "socket1" else (1 << 17)
        # "any number of APIDs": some direct histories open a group on each of 33-48 APIDs before anything else
        wide = mode == "direct" and ch.chance(1, 10, "wide")
        if wide:
            base = ch.pick((0, 1000, 2000), "wide_base")
            apids = tuple(range(base, base + 33 + ch.draw(16, "wide_n")))
        starts = [ch.pick((16382, 0, 16383, 16380, 100, 8191), "start") for _ in apids]
    # header bits other than APID / flags / count may differ between the segments of one APID (the statement speaks
    # of "the same APID" only): drawn per arrival in a share of the runs
    hdr_vary = mode != "direct_simple" and ch.chance(1, 3, "hdr_vary")
    # a link that duplicates a packet delivers the SAME bytes twice: in half of the runs a duplicate (and, in direct
    # histories, a replay of the APID's latest arrival) is byte-identical to its original instead of carrying its own stamp
    dup_identical = mode != "direct_simple" and ch.chance(1, 2, "dup_identical")

    # ---- build the history ---------------------------------------------------------------
    # an arrival is [apid, flag, count, packet_bytes]; packet bytes are built at delivery time so the
    # stamp is the arrival index
    arrivals = []
    sent_meta = []            # what the producers intended (for the rendered trace)

    def make_packet(idx, apid, flag, count, dlen):
        if dlen > 64:
            body = bytes(((idx >> (8 * (j & 1))) & 0xFF) for j in range(2)) + bytes(dlen - 2)     # stamp + zeros
        else:
            body = bytes(((idx >> (8 * (j & 1))) & 0xFF) ^ (0x5A if j >= 2 and (j & 2) else 0) for j in range(dlen))
        version, type_, shf = 0, 0, (1 if sh else 0)
        if hdr_vary:
            version = ch.weighted([(5, 0), (1, 7), (1, 3)], "hv_version")
            type_ = ch.weighted([(4, 0), (1, 1)], "hv_type")
            shf = ch.weighted([(3, shf), (1, 1 - shf)], "hv_shf")
            if version or type_ or shf != (1 if sh else 0):
                w.probe("header_bits_vary")
        return factory.build_packet(version, type_, shf, apid, flag, count, body)

    def deliver(apid, flag, count, dlen):
        idx = len(arrivals)
        arrivals.append([apid, flag, count, make_packet(idx, apid, flag, count, dlen)])

    def deliver_copy(j):
        arrivals.append(list(arrivals[j]))
        w.probe("identical_duplicate")

    pipe = None
    if mode == "long":
        # what segmentation is for: long groups (many CONTINUATION packets) and large segments (combined length beyond
        # one packet's 65542 bytes), on one APID with packets of another APID interleaved
        big = ch.chance(1, 3, "long_big")
        if big:
            nseg = 2 + ch.draw(3, "big_nseg")
            lens = [ch.pick((32768, 65536, 255, 256, 4090, 4100, 32767, 65535, 40000), "big_len") for _ in range(nseg)]
        else:
            nseg = ch.pick((8, 10, 17, 18, 33, 34, 65, 202, 7, 16), "long_nseg")
            lens = [ch.weighted([(4, 3), (2, 1), (1, 9), (1, 40)], "dlen") for _ in range(nseg)]
        a_main, a_other = apids[0], apids[-1]
        cnt = starts[0] if ch.chance(1, 2, "long_wrap") else (16384 - nseg // 2) % 16384     # often wraps inside the group
        gap_at = 1 + ch.draw(nseg - 1, "long_gap_at") if ch.chance(1, 4, "long_gap") else None
        other_cnt = starts[-1]
        for j in range(nseg):
            flag = F if j == 0 else (L if j == nseg - 1 else C)
            cnt = (cnt + (2 if gap_at == j else 1)) % 16384
            deliver(a_main, flag, cnt, lens[j])
            if a_other != a_main and ch.chance(1, 6, "long_inter"):
                other_cnt = (other_cnt + 1) % 16384
                deliver(a_other, U, other_cnt, 3)
        if gap_at is None:
            if nseg >= 17:
                w.probe("group_len_ge_17")
            if sum(lens) + 6 > 65542:
                w.probe("combined_gt_65542")
    elif mode in ("direct_simple", "direct"):
        if mode == "direct":
            n = 1 + ch.draw(ch.pick((6, 12, 30, 60), "nmax"), "n")
        counters = list(starts)
        if wide:
            w.probe("wide_open_groups")
            for ai in range(len(apids)):
                counters[ai] = (counters[ai] + 1) % 16384
                deliver(apids[ai], F, counters[ai], 3)
        for _ in range(n):
            flag = FLAG_ORDER[ch.draw(4, "flag")]
            if wide:
                flag = ch.weighted([(3, L), (2, C), (1, F), (1, U)], "wflag")
            ai = ch.draw(len(apids), "apid")
            if dup_identical and ch.chance(1, 6, "replay_prev"):
                prev = [j for j in range(len(arrivals)) if arrivals[j][0] == apids[ai]]
                if prev:
                    deliver_copy(prev[-1])
                    continue
            if mode == "direct_simple":
                step = (1, 2)[ch.draw(2, "seq")]
                dlen = 3
            else:
                step = ch.weighted([(16, 1), (4, 2), (2, 0), (2, 16383), (2, 5000), (1, 8193), (1, 8191), (1, 4097), (1, 12289)], "seq")     # (steps that are 1 modulo a smaller power of two: a narrower modulus accepts them)
                dlen = ch.weighted([(4, 3), (2, 1), (2, 9), (1, 2), (1, 40)], "dlen")
            counters[ai] = (counters[ai] + step) % 16384
            deliver(apids[ai], flag, counters[ai], dlen)
    else:
        # producers -> multiplexer (event timing) -> space link -> arrival list
        n_msgs = 1 + ch.draw(ch.pick((3, 6, 12), "msgmax"), "n_msgs")
        enabled = {f: ch.chance(1, 2, "en_" + f) for f in ("drop", "dup", "reorder", "flag_flip", "count_jump",
                                                            "producer_restart")}
        rate = ch.pick((12, 6, 25), "fault_rate_den")
        budget = [60]

        def link(apid, flag, count, dlen):
            """Space link: decides what happens to one transmitted packet."""
            if budget[0] <= 0:
                return
            if enabled["drop"] and ch.chance(1, rate, "drop"):
                w.fault("drop")
                w.ev("link", "drop", apid, flag, count)
                return
            if enabled["flag_flip"] and ch.chance(1, rate * 2, "flip"):
                flag = FLAG_ORDER[ch.draw(4, "flip_to")]
                w.fault("flag_flip")
            if enabled["count_jump"] and ch.chance(1, rate * 2, "jump"):
                count = (count + ch.pick((1, 2, 16383, 100), "jump_by")) % 16384
                w.fault("count_jump")
            delay = 0
            if enabled["reorder"] and ch.chance(1, rate, "reorder"):
                delay = ch.pick((2_000_000, 5_000_000, 40_000_000), "delay")
                w.fault("reorder")
            copies = 1
            if enabled["dup"] and ch.chance(1, rate, "dup"):
                copies = 2
                w.fault("dup")
            cell = {} if copies == 2 and dup_identical else None
            for c in range(copies):
                budget[0] -= 1
                w.after(delay + c * ch.pick((0, 1_000_000, 9_000_000), "dup_gap") if c else delay,
                        arrive, apid, flag, count, dlen, cell)

        def arrive(apid, flag, count, dlen, cell=None):
            if cell is not None and "j" in cell:
                deliver_copy(cell["j"])
            else:
                if cell is not None:
                    cell["j"] = len(arrivals)
                deliver(apid, flag, count, dlen)
            w.ev("link", "arrive", apid, flag, count)

        def producer(pi):
            apid = apids[pi]
            cnt = starts[pi]
            mine = n_msgs // len(apids) + (1 if pi < n_msgs % len(apids) else 0)
            for _m in range(mine):
                segs = ch.weighted([(3, 1), (3, 2), (3, 3), (1, 4), (1, 5)], "segs")
                if enabled["producer_restart"] and ch.chance(1, rate, "restart"):
                    cnt = 0
                    w.fault("producer_restart")
                    w.ev(f"prod{pi}", "restart")
                for s in range(segs):
                    flag = U if segs == 1 else (F if s == 0 else (L if s == segs - 1 else C))
                    cnt = (cnt + 1) % 16384
                    dlen = ch.weighted([(4, 3), (2, 1), (2, 9), (1, 2), (1, 40)], "dlen")
                    sent_meta.append((apid, FLAG_NAME[flag], cnt))
                    yield ("call", lambda a=apid, f=flag, c=cnt, d=dlen: link(a, f, c, d))
                    yield ("sleep", ch.pick((1_000_000, 0, 3_000_000, 10_000_000), "gap"))
        for pi in range(len(apids)):
            w.spawn(f"prod{pi}", producer(pi), delay=ch.pick((0, 500_000, 2_500_000), "pstart"))
        w.drain()

    stream_parts = []
    for a in arrivals:
        if k:
            stream_parts.append(b"\xEE" * k)
        stream_parts.append(a[3])
    stream = b"".join(stream_parts)
    # link cut: the downlink dies at a drawn byte offset (file torn / peer closes); only the arrivals delivered
    # completely before the cut are history, whatever group was open at that moment is never emitted
    torn_tail = False
    if mode != "direct_simple" and stream and ch.chance(1, 6, "link_cut"):
        cut = ch.draw(len(stream) + 1, "cut_at")
        stream = stream[:cut]
        n_keep, o = 0, 0
        for a in arrivals:
            o += k + len(a[3])
            if o > cut:
                break
            n_keep += 1
        if n_keep < len(arrivals):
            w.fault("link_cut")
        del arrivals[n_keep:]
        torn_tail = len(stream) != sum(k + len(a_[3]) for a_ in arrivals)
    n_arr = len(arrivals)

    # ---- probes on the history (computed with the deterministic reading A of the model) -----
    def consecutive_of(g):
        return all((arrivals[g[j + 1]][2] - arrivals[g[j]][2]) % 16384 == 1 for j in range(len(g) - 1))

    openA = {}
    last_event = {}           # apid -> "complete" | "rejected" | None
    prev_apid = None
    prev_cnt = {}
    for i, (apid, flag, cnt, pkt) in enumerate(arrivals):
        st = openA.get(apid)
        inseq = apid in prev_cnt and (cnt - prev_cnt[apid]) % 16384 == 1
        cov.add((flag, st is not None, inseq, apid == prev_apid))
        if flag == U:
            if st is not None:
                w.probe("u_while_open")
        elif flag == F:
            if st is not None:
                w.probe("superseded_first")
            openA[apid] = (i,)
            last_event[apid] = None
        elif st is None:
            if last_event.get(apid) == "complete":
                w.probe("orphan_after_complete")
            elif last_event.get(apid) == "rejected":
                w.probe("orphan_after_rejected")
            w.probe("orphan")
        elif flag == C:
            openA[apid] = st + (i,)
        else:
            g = st + (i,)
            del openA[apid]
            if consecutive_of(g):
                w.probe("group_emitted")
                last_event[apid] = "complete"
                cs = [arrivals[j][2] for j in g]
                if any(cs[j + 1] < cs[j] for j in range(len(cs) - 1)):
                    w.probe("wrap_in_group")
                if any(len(arrivals[j][3]) - 6 < sh for j in g[1:]):
                    w.probe("sh_gt_segment")
            else:
                w.probe("group_gap_rejected")
                last_event[apid] = "rejected"
        if len(openA) >= 3:
            w.probe("three_apids_open")
        prev_apid = apid
        prev_cnt[apid] = cnt

    # ---- the source -------------------------------------------------------------------------
    sock = None
    heads = []                # lengths of undelivered arrivals (socket1)
    pulled = [0]              # raw packets handed by the framer to the reassembly state machine so far
    if srckind == "bytes":
        source = stream
    elif srckind == "file":
        raw12 = SimRaw(w, stream)
        raw12.eof_budget = 8 + 6 * len(arrivals)      # a framer may poll end-of-file a few times per packet; many packets yield nothing here
        source = io.BufferedReader(raw12, buffer_size=ch.pick((8192, 16, 1), "bufsize"))
    else:
        pipe = Pipe(w)
        pipe.eof_budget = 8 + 6 * len(arrivals)
        if srckind == "socket1":
            heads = [k + len(a[3]) for a in arrivals]
            pos = [0]

            def take(avail):
                if pos[0] >= len(heads):
                    return avail              # the torn tail after a link cut
                n_ = heads[pos[0]]
                pos[0] += 1
                return n_
        else:
            def take(avail):
                return 1 + ch.draw(avail, "take_n")

        def feeder():
            if stream:
                yield ("send", pipe, stream)
            yield ("fin", pipe)
        w.spawn("feeder", feeder())
        sock = SimSocket(w, pipe, take=take)
        source = sock

    # ---- a second downlink decoded at the same time with the same definition -------------------
    # (its own generator over its own small history on one of this run's APIDs; advanced between outputs of the main
    # generator. Each generator owns its open groups: neither may lose, gain or complete a group because of the other)
    shadow = None
    if mode in ("direct", "link") and arrivals and ch.chance(1, 5, "second_downlink"):
        sa = arrivals[ch.draw(len(arrivals), "shadow_apid_of")][0]
        sb = (sa + 1) % 2048
        c0 = ch.pick((16381, 0, 100), "shadow_start")
        sver, sshf = 0, (1 if sh else 0)

        def sp(apid, flag, cnt, tag):
            return factory.build_packet(sver, 0, sshf, apid, flag, cnt % 16384, bytes([0xA5, tag, 0xC3]))
        spk = [sp(sa, U, c0, 0), sp(sa, F, c0 + 1, 1), sp(sa, C, c0 + 2, 2), sp(sb, U, 7, 3), sp(sa, L, c0 + 3, 4), sp(sa, U, c0 + 4, 5)]
        shadow = {"stream": b"".join((b"\xEE" * k) + p_ for p_ in spk), "gen": None, "out": [], "err": None, "done": False,
                  "expected": [spk[0], spk[3], spk[1] + spk[2][6 + sh:] + spk[4][6 + sh:], spk[5]]}
        w.probe("second_downlink")
    current = ["main"]
    shadow_pulled = [0]

    # ---- run the consumer ---------------------------------------------------------------------
    observed = []             # (arrival_index_or_None, raw bytes)
    warned_at = set()
    n_warn = [0]
    err = None
    stopped = False
    # attribution seam: packet_generator obtains its raw packets from the module attribute
    # packets.ccsds_generator; a pass-through wrapper counts them, so every output and warning is
    # attributable to the arrival being handled, for every source kind.
    pk = _packets
    orig_gen = pk.ccsds_generator

    class _Counting:
        """Transparent proxy around whatever the framer returns (generator, iterator object ...): counts the packets
        handed out and forwards everything else (attributes, close, send ...) to the original object."""

        def __init__(self, inner, ctr):
            self.__dict__["_inner"] = inner
            self.__dict__["_it"] = None
            self.__dict__["_ctr"] = ctr

        def __iter__(self):
            return self

        def __next__(self):
            if self._it is None:
                self.__dict__["_it"] = iter(self._inner)
            v = next(self._it)
            self.__dict__["_ctr"][0] += 1
            return v

        def __getattr__(self, name):
            return getattr(self.__dict__["_inner"], name)

        def __setattr__(self, name, value):
            setattr(self.__dict__["_inner"], name, value)

        def close(self):
            c = getattr(self.__dict__["_inner"], "close", None)
            if c is not None:
                c()

    def counting(*a, **kw):
        return _Counting(orig_gen(*a, **kw), pulled if current[0] == "main" else shadow_pulled)
    pk.ccsds_generator = counting
    # "dropped with a warning": a warnings.warn() is what the code does today; a WARNING-level record on one of the
    # decoder's loggers (space_packet_parser.xtce.*) is accepted as well, so that moving from warnings to logging
    # would not be reported. The framer's own logger (trailing-bytes messages after a link cut) does not count.
    class _Cap(logging.Handler):
        def emit(self, record):
            if current[0] != "main":
                return
            if record.levelno >= logging.WARNING and record.name.startswith("space_packet_parser") and not (
                    torn_tail and record.name == "space_packet_parser.packets"):
                n_warn[0] += 1
                warned_at.add(pulled[0] - 1)
    cap_handler = _Cap(level=logging.WARNING)
    lib_logger = logging.getLogger("space_packet_parser")
    saved_disable = logging.root.manager.disable
    saved_prop = lib_logger.propagate
    logging.disable(logging.NOTSET)
    lib_logger.addHandler(cap_handler)
    lib_logger.propagate = False
    try:
        with warnings.catch_warnings():
            warnings.simplefilter("always")

            def showwarning(message, category, filename, lineno, file=None, line=None):
                if current[0] != "main":
                    return
                n_warn[0] += 1
                warned_at.add(pulled[0] - 1)
            warnings.showwarning = showwarning

            def step_shadow():
                """Advance the second generator by one output (or to its end)."""
                current[0] = "shadow"
                try:
                    if shadow["gen"] is None:
                        shadow["gen"] = _defn.packet_generator(shadow["stream"], combine_segmented_packets=True,
                                                               secondary_header_bytes=sh, skip_header_bytes=k)
                    it = next(shadow["gen"])
                    rd_ = getattr(it, "raw_data", None)
                    shadow["out"].append(bytes(rd_) if rd_ is not None else None)
                    w.ev("consumer2", "output", len(shadow["out"]))
                except StopIteration:
                    shadow["done"] = True
                except Exception as e_:      # noqa: BLE001
                    library_exception(e_)
                    shadow["err"] = f"{type(e_).__name__}: {e_}"
                    shadow["done"] = True
                finally:
                    current[0] = "main"
            gen = None
            w.ev("consumer", "start", srckind, sh, k)
            try:
                gen = _defn.packet_generator(source, combine_segmented_packets=True, secondary_header_bytes=sh,
                                             buffer_read_size_bytes=rs, skip_header_bytes=k)
                while True:
                    if len(observed) > n_arr + 2:
                        err = ("too_many_items", f"more than {n_arr + 2} outputs from {n_arr} arrivals")
                        break
                    if shadow is not None and not shadow["done"] and len(shadow["out"]) < 8 and ch.chance(1, 3, "shadow_step"):
                        step_shadow()
                    item = next(gen)
                    if pipe is not None:
                        pipe.eof_reads = 0
                    at = pulled[0] - 1
                    rd = getattr(item, "raw_data", None)
                    observed.append((at, bytes(rd) if rd is not None else None, type(item).__name__))
                    w.ev("consumer", "output", at if at is not None else -1, len(rd) if rd is not None else -1)
            except StopIteration:
                stopped = True
            except (LivenessViolation, SimDeadlock, StepBudgetExceeded) as e:
                err = (type(e).__name__, str(e))
            except Exception as e:
                library_exception(e)
                err = ("exception", f"{type(e).__name__}: {e}")
            finally:
                try:
                    if gen is not None:
                        gen.close()
                except Exception:
                    pass
            if shadow is not None:
                while not shadow["done"] and len(shadow["out"]) < 8:
                    step_shadow()
                try:
                    if shadow["gen"] is not None:
                        shadow["gen"].close()
                except Exception:
                    pass
    finally:
        pk.ccsds_generator = orig_gen
        lib_logger.removeHandler(cap_handler)
        lib_logger.propagate = saved_prop
        logging.disable(saved_disable)
        if sock is not None:
            sock.close()
    per_arrival = pulled[0] == n_arr
    if not per_arrival:
        w.probe("attribution_unavailable")     # refactored code: fall back to whole-sequence comparison

    # ---- oracle: nondeterministic acceptor ---------------------------------------------------
    hist = " ".join(f"{FLAG_NAME[a[1]]}{a[0]}#{a[2]}" for a in arrivals[:40])
    desc = f"mode={mode} src={srckind} sh={sh} k={k} read_size={rs} history=[{hist}]"
    if err is not None:
        out.fail("exception" if err[0] == "exception" else err[0], f"{err[1]} after {len(observed)} outputs ({desc})")
    elif not stopped:
        out.fail("no_stop", f"generator did not stop ({desc})")
    else:
        for (_at, rd, tn) in observed:
            if rd is None:
                out.fail("wrong_type", f"output of type {tn} has no raw_data ({desc})")
                break
    must_warn = set()

    def accept(per_arrival_mode):
        """Run the reference model over the history against the observed outputs. ``per_arrival_mode`` False: only the
        sequence of outputs is judged; True: additionally each output must come at its arrival and required warnings
        must be raised while their arrival is handled. Returns None or (kind, message)."""
        apid_ix = {}
        for a_ in arrivals:
            apid_ix.setdefault(a_[0], len(apid_ix))
        configs = {(0, (None,) * len(apid_ix))}
        for i, (apid, flag, cnt, pkt) in enumerate(arrivals):
            ax = apid_ix[apid]
            new = set()
            why = None
            for (pos, states) in configs:
                for (ns, emit, warn_req) in transitions(states[ax], i, flag, consecutive_of):
                    if emit is not None:
                        if pos >= len(observed):
                            why = why or ("missing_output", f"arrival {i} ({FLAG_NAME[flag]} apid {apid}) should "
                                          f"produce an output made of arrivals {list(emit)}; none was yielded")
                            continue
                        at, rd, _tn = observed[pos]
                        if per_arrival_mode and at != i:
                            why = why or ("missing_output" if (at is None or at > i) else "unexpected_output",
                                          f"arrival {i} ({FLAG_NAME[flag]} apid {apid}) should produce an output made "
                                          f"of arrivals {list(emit)}; next output was yielded at arrival {at}")
                            continue
                        exp = expected_raw(arrivals, emit, sh)
                        if rd != exp:
                            why = why or ("wrong_output" if len(rd) == len(exp) or rd[:6] == exp[:6] else "unexpected_output",
                                          f"output {pos}, expected from arrivals {list(emit)} (complete at arrival {i}): got "
                                          f"{len(rd)}B {rd[:24].hex()}, expected {len(exp)}B {exp[:24].hex()}")
                            continue
                        npos = pos + 1
                    else:
                        if per_arrival_mode and pos < len(observed) and observed[pos][0] == i:
                            why = why or ("unexpected_output", f"arrival {i} ({FLAG_NAME[flag]} apid {apid} count {cnt}) "
                                          f"must not produce an output, but {len(observed[pos][1])}B "
                                          f"{observed[pos][1][:24].hex()} was yielded there")
                            continue
                        if per_arrival_mode and warn_req and i in must_warn and i not in warned_at:
                            why = why or ("missing_warning", f"arrival {i} ({FLAG_NAME[flag]} apid {apid} count {cnt}) is "
                                          f"dropped by the model with a warning; no warning was raised while it was handled")
                            continue
                        npos = pos
                    new.add((npos, states[:ax] + (ns,) + states[ax + 1:]))
            if not new:
                return why or ("mismatch", f"no accepted behaviour at arrival {i}")
            configs = new
        if not any(pos == len(observed) for (pos, _s) in configs):
            pos = max(p for (p, _s) in configs)
            at, rd, _tn = observed[pos]
            return ("unexpected_output", f"output {pos} ({len(rd)}B {rd[:24].hex()}"
                    + (f", yielded at arrival {at}" if at is not None else "") + ") is explained by no arrival group")
        return None

    if out.violation is None:
        # (1) the verdict on WHAT is emitted: the sequence of outputs against the model, independent of when the framer
        #     was pulled (a library may frame ahead of what it is handling)
        fail = accept(False)
        if fail is None and per_arrival:
            # (2) warnings are attributable to arrivals only if the attribution seam behaves lazily in this run. That is
            #     validated by the outputs themselves: every output must have been yielded while its completing arrival was
            #     the last one pulled, and at least one of them before the end of the stream (an eager framer would show
            #     every output "at" the last arrival).
            emits = []
            st_ = {}
            seen_kinds = set()
            for i, (apid, flag, cnt, pkt) in enumerate(arrivals):
                was_open = st_.get(apid) is not None
                (ns, emit, wr_), = transitions(st_.get(apid), i, flag, consecutive_of)
                st_[apid] = ns
                if emit is not None:
                    emits.append(i)
                if wr_:
                    # "dropped with a warning where applicable": the first orphan segment of an APID and the first gapped
                    # group of an APID must be warned about; whether every later one warns again (or is rate-limited,
                    # warn-once) is not something the statement fixes
                    kind_ = (apid, "gap" if was_open else "orphan")
                    if kind_ not in seen_kinds:
                        seen_kinds.add(kind_)
                        must_warn.add(i)
            ats = [o[0] for o in observed]
            if ats != emits:
                w.probe("attribution_inconsistent")          # frames ahead: outputs judged by sequence only, warnings unjudged
            elif not any(i < n_arr - 1 for i in emits):
                w.probe("attribution_unvalidated")           # nothing in this run can tell lazy from eager: warnings unjudged
            else:
                w.probe("warnings_judged")
                fail = accept(True)
        if fail is not None:
            out.fail(fail[0], f"{fail[1]} ({desc})")

    if shadow is not None and out.violation is None:
        if shadow["err"] is not None:
            out.fail("exception", f"{shadow['err']} in a second generator using the same definition at the same time, "
                                  f"after {len(shadow['out'])} of its outputs ({desc})")
        elif shadow["out"] != shadow["expected"]:
            out.fail("second_generator_wrong_output",
                     f"a second generator using the same definition at the same time (history U F C U' L U on apid "
                     f"{header_apid(shadow['expected'][0])}) yielded {[len(o) if o is not None else None for o in shadow['out']]} bytes "
                     f"per output, expected {[len(o) for o in shadow['expected']]} with the group reassembled third ({desc})")

    out.log = w.log
    out.faults = w.faults
    out.probes = w.probes
    out.sim_ns = w.now
    out.cov = cov
    out.sched = tuple((a[0], a[1]) for a in arrivals)
    out.nontrivial = any(a[1] != U for a in arrivals)
    if render:
        out.sample = {
            "mode": mode, "source": srckind, "secondary_header_bytes": sh, "skip_header_bytes": k, "read_size": rs,
            "apids": list(apids),
            "producers_sent": [f"{f}{a}#{c}" for (a, f, c) in sent_meta[:60]],
            "history(arrivals: FLAG apid #count)": [f"{i}:{FLAG_NAME[a[1]]}{a[0]}#{a[2]}({len(a[3]) - 6}B)"
                                                     for i, a in enumerate(arrivals[:60])],
            "outputs(at arrival, bytes)": [(at, len(rd) if rd is not None else None) for (at, rd, _t) in observed[:60]],
            "warnings_at_arrivals": sorted(warned_at)[:60], "warnings_total": n_warn[0],
            "link_events": [list(map(str, e[2:])) for e in w.log if e[2] == "link"][:40],
            "result": out.violation or "ok",
        }
    return out
